"""Workload generators shared by C01, C02, C14 (DESIGN C01 G1-G4)."""
import unicodedata

from ..spec import grammar as G

IMPOSSIBLE = [
    "31.04.", "31.04.2018", "30.02.2019", "29.02.2019", "30.2.", "31.6.2020", "31. april", "april 31st", "february 30 2020", "30th of february",
    "31.11.2020 10:00", "30.2.2019 - 31.2.2019", "3 days 30.2.2019 - 31.2.2019", "31.06. for 3 days", "29.02.2023 for 1 month", "am 31.09. um 8 uhr",
    "31/04/2018", "31-04-2018", "31.04.18", "from 31.04.2018 to 02.05.2018", "before 30.02.2020", "after 31.04.", "31.04. 8:00 - 10:00", "29.02.",
    "29. februar 2021", "31.02.2020 - 01.03.2020", "monday 31.04.2018", "31.04.2018 morning", "2 nights 29.02.2019 - 31.02.2019",
    # the century rule: 1900 is the one year the year pattern can produce in which a 4-year rule and the calendar disagree,
    # 2000 the one in which a 100-year rule without the 400-year exception does
    "29.02.1900", "29.02.1900 for 2 days", "29.02.1900 9-5", "29. februar 1900", "feb 29 1900", "1 day 28.02.1900-29.02.1900", "29/2/1900 14:30",
    "29.02.2000", "29.02.2000 for 2 days", "29.02.2000 9-5", "feb 29 2000 at noon", "28.02.2000 - 29.02.2000", "29.02.00", "29.02.00 for 1 week",
]
MODIFIER_STACKS = [
    "late very late evening", "early early early morning", "very early very early morning", "sehr früh sehr spät abend", "late late late late night",
    "early late early late afternoon", "very late very late very late evening", "früh früh früh morgens", "late early evening", "very early late night",
    "spät spät abends", "early very late noon", "late late first", "early early last", "sehr spät sehr früh mittags", "late very early forenoon",
]
POD_EDGE = ["12 at night", "12 uhr nachts", "tonight at 12", "12:30 in the afternoon", "12 abends", "0 uhr nachts", "12:45 late evening", "nachmittags 12:15",
            "12 in the evening", "12:00 pm at night", "24:00", "12 o'clock tonight", "tomorrow 12 at night", "am 5. um 12 uhr nachts", "12-1 at night",
            "11:59 pm tonight", "12 noon", "mittags 12", "12 uhr mittags", "heute nacht 12 uhr"]
# dated clock ranges that cross midnight on the last day of a month / year (the end has to roll every field over)
MONTH_END_RANGES = ["30.11.2020 23:30 - 3:35", "31.12.2020 22:00 - 1:00", "31.03.2021 von 23 uhr bis 2 uhr", "29.02.2024 23:15-0:45", "28.02.2023 22:30 - 6:00",
                    "31.01.2022 11pm - 2am", "30.04.2021 between 23:00 and 4:00", "31.12.2019 23:59 - 0:01", "31.10.2020 evening - morning", "30.06.2022 20:00 - 8:00",
                    "am 31.12. 23:30 - 3:35", "31.08.2021 from 22:00 until 1:30", "tomorrow 23:30 - 3:35", "friday 23:00 - 2:00"]
POD_RANGES = ["afternoon 12-2", "nachmittags 12-14 uhr", "abends 10-12", "abends bis 12", "tonight from 10 to 12", "tomorrow evening 10-12", "evening 12-1",
              "nachts 11-12", "at night 12 - 3", "morgens 11-12", "vormittags 9-12", "afternoon 1-12", "late evening 11 - 12", "am abend von 8 bis 12",
              "heute nachmittag 12-13 uhr", "friday night 10-12", "night 12:00 - 12:30", "last 11-12", "first 12-1"]
# two dated times within one hour, one of them written without minutes (a minute compared with an unspecified minute raised
# TypeError before fix 1998a2e); 'now' needs a reference time in that hour (the fixed list runs at 12:43)
SAME_HOUR_PAIRS = ["10.3.2021 12:30 - 10.3.2021 12 o'clock", "now to 12 o'clock today", "jetzt bis heute 12 uhr", "today 12:30 - today 12 o'clock",
                   "heute 12 uhr bis heute 12:45", "5.5.2020 8 o'clock until 5.5.2020 8:15", "tomorrow at 9 o'clock - tomorrow 9 o'clock",
                   "am 3.4.2022 um 23:59 bis 3.4.2022 23 uhr", "now - now", "jetzt bis jetzt"]
# the same expression twice in one text (a rule that hands back a shared object, or a table keyed by value, shows only then)
DOUBLED = [f % (e, e) for e in ("midnight", "mitternacht", "noon", "tomorrow", "monday", "5pm", "12.12.", "heute", "eom", "now", "first", "8 uhr", "3rd", "12am")
           for f in ("%s %s", "sat %s - sun %s", "%s tomorrow %s", "%s bis %s")]
TRIVIAL = ["", " ", "   ", "#foo", "#foo #bar", "  #x  ", "#", "# #", "#1", "#foo-bar_baz", "gargelbabel", "hello world", "#tag only words here",
           "\t", "\n", ",;", "()", "-", "--", ".", "...", "#-", "a", "0", "00", "000", "0000", "00000",
           # every one-character and a few two-character texts that could be a time on their own
           "1", "2", "3", "4", "5", "6", "7", "8", "9", "h", "m", "5.", "9h", "5 ", " 7", "12", "24", "31", "so", "mo", "um", "am", "5 #work", "#work 5"]
INERT = ["zzz", "qqq", "lorem", "ipsum", "beers", "burgers", "xylophone", "buy", "gift", "dentist", "pizza"]
SOUP_TOKENS = [
    "at", "on", "am", "um", "the", "von", "from", "between", "monday", "mo", "di", "march", "mar", "mai", "one", "eins", "twelve", "uhr", "h", "o'clock",
    "midnight", "very", "early", "late", "früh", "spät", "morning", "night", "first", "last", "5.", "31.", "12", "3rd", "5th", "2019", "19", "heute",
    "today", "now", "jetzt", "tomorrow", "morgen", "übermorgen", "yesterday", "vorgestern", "eom", "eoy", "this", "next", "nächsten", "next week",
    "5.3.", "3/5", "05.03.2019", "12-May-2018", "0815", "8:15", "8.15", "8h", "8 uhr", "quarter to", "viertel nach", "half", "halb", "before",
    "after", "not before", "bis", "spätestens", "ab", "-", "to", "until", "und", "and", "3 days", "two nights", "half an hour", "für", "for", "of",
    "pm", "a.m.", "12am", "12pm", "24:00", "00:00", "23:59", "25:00", "9-5", "1/2", "m", "min", "an", "a",
]


def soup(r):
    n = r.randrange(1, 7)
    toks = []
    for _ in range(n):
        x = r.random()
        if x < 0.55:
            toks.append(r.choice(SOUP_TOKENS))
        elif x < 0.75:
            a = r.randrange(0, 2101)
            toks.append(_num(r, a))
        elif x < 0.88:
            toks.append(r.choice(INERT))
        else:
            toks.append("#" + r.choice(["tag", "a1", "x-y", "9", "_u", "Work", "é"]))
    sep = r.choice([" ", " ", " ", "  ", ", ", "-", " - ", "/", ""])
    return sep.join(toks) if r.random() < 0.15 else " ".join(toks)


def _num(r, a):
    k = r.randrange(7)
    if k == 0:
        return "%d" % a
    if k == 1:
        return "%d." % (a % 40)
    if k == 2:
        return "%d.%d." % (a % 33, r.randrange(0, 14))
    if k == 3:
        return "%d:%02d" % (a % 26, r.randrange(0, 62))
    if k == 4:
        return "%d/%d" % (a % 33, r.randrange(0, 14))
    if k == 5:
        return "%d-%d" % (a % 33, r.randrange(0, 33))
    return "%d.%d.%d" % (a % 33, r.randrange(0, 14), r.choice([a, a % 100, 1900 + a % 200]))


_RANGES = [(0x20, 0x7F), (0xA0, 0x24F), (0x300, 0x36F), (0x370, 0x3FF), (0x400, 0x4FF), (0x5D0, 0x5EA), (0x600, 0x6FF), (0x900, 0x97F),
           (0x2000, 0x206F), (0x2190, 0x21FF), (0x3040, 0x30FF), (0x4E00, 0x4FFF), (0xFF00, 0xFFEF), (0x1F300, 0x1F64F), (0x1D400, 0x1D7FF),
           (0x0, 0x1F), (0xE000, 0xE0FF), (0xFE00, 0xFE0F), (0x1F1E6, 0x1F1FF), (0x660, 0x669), (0xFF10, 0xFF19)]


def unicode_text(r):
    n = r.randrange(0, 41)
    out = []
    for _ in range(n):
        x = r.random()
        if x < 0.25:
            out.append(r.choice("0123456789:.-/ #"))
        elif x < 0.4:
            out.append(r.choice(SOUP_TOKENS))
        else:
            lo, hi = r.choice(_RANGES)
            cp = r.randrange(lo, hi + 1)
            if 0xD800 <= cp <= 0xDFFF:
                cp = 0x41
            out.append(chr(cp))
    return "".join(out)[:60]


def mutate(r, text):
    toks = text.split(" ")
    k = r.randrange(5)
    if k == 0 and len(toks) > 1:
        del toks[r.randrange(len(toks))]
    elif k == 1:
        i = r.randrange(len(toks))
        toks.insert(i, toks[i])
    elif k == 2 and len(toks) > 1:
        i, j = r.randrange(len(toks)), r.randrange(len(toks))
        toks[i], toks[j] = toks[j], toks[i]
    elif k == 3:
        return text[: r.randrange(0, len(text) + 1)]
    else:
        i = r.randrange(len(toks) + 1)
        toks.insert(i, r.choice(INERT + SOUP_TOKENS))
    return " ".join(toks)


def corpus_texts():
    from ctparse.time.corpus import corpus
    out = []
    for target, ts, tests in corpus:
        out += list(tests)
    return out


def dataset_texts(limit=None):
    import json
    import os
    from .. import env
    try:
        with open(os.path.join(env.REPO, "datasets", "timeparse_corpus.json"), encoding="utf-8") as fd:
            d = json.load(fd)
    except OSError:
        return []
    return [e["text"] for e in d][:limit]


def text_case(r, pools):
    """one (generator class, text)"""
    x = r.random()
    if x < 0.30:
        c, t = G.expression(r)
        return "G1/" + c.split("/")[0], t
    if x < 0.36:
        return "G1/impossible", r.choice(IMPOSSIBLE)
    if x < 0.40:
        return "G1/modifier-stack", r.choice(MODIFIER_STACKS)
    if x < 0.44:
        return "G1/trivial", r.choice(TRIVIAL)
    if x < 0.64:
        return "G2/soup", soup(r)
    if x < 0.76:
        return "G3/unicode", unicode_text(r)
    if x < 0.90:
        return "G4/corpus-mutated", mutate(r, r.choice(pools["corpus"]))
    c, t = G.expression(r)
    return "G1+/embedded", "%s %s %s" % (r.choice(INERT), t, r.choice(INERT + ["#tag"]))


REF_TIMES = ["1970-01-01T00:00:00", "2100-12-31T23:59:59.999999", "2000-02-29T12:00:00", "2096-02-29T23:59:59", "2100-02-28T00:00:01",
             "2019-12-31T23:59:59.999999", "2020-02-29T00:00:00", "2021-03-10T12:43:30", "2021-01-31T08:00:00", "2022-04-30T18:30:15.250000",
             "1999-12-31T23:59:00", "2038-01-19T03:14:07"]


def ref_time(r):
    x = r.random()
    if x < 0.5:
        return r.choice(REF_TIMES)
    if x < 0.55:
        return None
    from datetime import datetime, timedelta
    d = datetime(1970, 1, 1) + timedelta(seconds=r.randrange(0, 4133980799), microseconds=r.choice([0, 0, 500000, 999999]))
    return d.isoformat()


def options(r):
    return {"latent_time": r.random() < 0.6, "max_stack_depth": r.choice([10, 10, 1, 0]), "relative_match_len": r.choice([1.0, 1.0, 0.8, 0.5, 0.1, 1e-9]),
            "scorer": r.choice(["shipped", "shipped", "constant", "random", "trained"]), "debug": r.random() < 0.15}


_TRAINED = {}


def make_scorer(L, name, seed):
    import random
    if name == "shipped":
        return None
    if name == "constant":
        return L.scorer.DummyScorer()
    if name == "trained":
        # a naive-Bayes scorer over a model OTHER than the shipped one (a user's own model): a small deterministic training
        # set over the registered rule names and pattern ids; one model per process, a fresh scorer object per call
        if "m" not in _TRAINED:
            r = random.Random(20210310)
            names = sorted(L.registry) + [str(i) for i in sorted(L.rule._regex)]
            X, y = [], []
            for i in range(400):
                X.append(tuple(r.choice(names) for _ in range(r.randrange(1, 8))))
                y.append(i % 3 != 0)
            _TRAINED["m"] = L.nb_scorer.train_naive_bayes(X, y)
        return L.nb_scorer.NaiveBayesScorer(_TRAINED["m"])
    return L.scorer.RandomScorer(random.Random(seed))
