"""Run-time attachment to the real code (DESIGN 1.1): every observation point is
reached by rebinding a name that the library looks up at call time; nothing in
the repository source is edited."""
import sys
import threading
from collections import Counter

from .env import import_repo
from .spec import values as V


class Patches:
    """rebinding with undo"""

    def __init__(self):
        self._undo = []

    def set(self, obj, name, new):
        old = getattr(obj, name)
        setattr(obj, name, new)
        self._undo.append((obj, name, old))
        return old

    def has(self, obj, name):
        return hasattr(obj, name)

    def undo(self):
        while self._undo:
            obj, name, old = self._undo.pop()
            setattr(obj, name, old)


class Lib:
    """handles on the modules of the tree under observation"""

    def __init__(self):
        self.m = import_repo()  # module ctparse.ctparse
        mods = sys.modules
        self.pkg = mods["ctparse"]
        self.types = mods["ctparse.types"]
        self.rule = mods["ctparse.rule"]
        self.rules_mod = mods["ctparse.time.rules"]
        self.pp = mods["ctparse.partial_parse"]
        self.timers = mods["ctparse.timers"]
        self.scorer = mods["ctparse.scorer"]
        self.nb_scorer = mods["ctparse.nb_scorer"]
        self.post = mods["ctparse.time.postprocess_latent"]
        self.loader = mods["ctparse.loader"]
        self.Time = self.types.Time
        self.Interval = self.types.Interval
        self.Duration = self.types.Duration
        self.DurationUnit = self.types.DurationUnit
        self.RegexMatch = self.types.RegexMatch
        self.pod_hours = self.types.pod_hours
        self.registry = self.rule.rules  # dict name -> (wrapper, patterns)

    # the API is always looked up through the module so that monitors installed
    # on module globals are in effect
    def ctparse(self, *a, **k):
        return self.m.ctparse(*a, **k)

    def ctparse_gen(self, *a, **k):
        return self.m.ctparse_gen(*a, **k)


_LIB = None


def lib():
    global _LIB
    if _LIB is None:
        _LIB = Lib()
    return _LIB


class StepBudget(BaseException):
    """raised by the monitors when one call exceeds its step budget (counted in
    deadline-check calls and rule applications, never in wall-clock time); the
    case is recorded as skipped, not as a violation"""


def shape(a):
    """which fields of a value are present: 'T:ymdhM' / 'T:DP' / 'I[T:hM|T:hM]' / 'D:days' / 'R'"""
    n = type(a).__name__
    if n == "Time":
        return "T:" + "".join(c for c, f in (("y", "year"), ("m", "month"), ("d", "day"), ("h", "hour"), ("M", "minute"), ("D", "DOW"), ("P", "POD"))
                              if getattr(a, f, None) is not None)
    if n == "Interval":
        return "I[%s|%s]" % (shape(a.t_from) if a.t_from is not None else "-", shape(a.t_to) if a.t_to is not None else "-")
    if n == "Duration":
        return "D:%s" % getattr(getattr(a, "unit", None), "name", "?")
    if n == "RegexMatch":
        return "R"
    return n


class Monitors:
    """The set of monitors a worker installs once; cheap enough to stay on for
    every case. Per-case state is reset by ``begin()``."""

    def __init__(self, L, snapshots=False):
        self.L = L
        self.p = Patches()
        self.lock = threading.Lock()
        self.rule_fired = Counter()      # rule name -> successful productions (whole run)
        self.rule_calls = Counter()
        self.events = Counter()          # event type -> count (whole run)
        self.case_rules = Counter()      # per case
        self.case_matches = []           # RegexMatch events of the last _match_regex call: (id, mstart, mend)
        self.case_norm = None            # normalised text of the last call
        self.case_search_text = None
        self.case_raises = []            # exceptions leaving a rule body
        self.snapshots = snapshots
        self.snap_breaches = []
        self.step_budget = 20000         # deadline-check calls per API call (a typical parse makes < 200)
        self.rule_budget = 150000        # rule applications per API call
        self.case_steps = 0
        self.case_rule_calls = 0
        self.zero_length = []
        self.track_prov = False          # provenance: id(artifact) -> set of (mstart, mend, pattern id) it was built from
        self.prov = {}
        self.prov_keep = []
        self.track_post = False          # log of the latent-anchoring calls of a case (argument, snapshot, result)
        self.post_log = []
        self.track_feat = False          # rule-application signatures (producer rules and value shapes of the arguments)
        self.feats = set()
        self.producer = {}
        self._orig_registry = {}
        self._install()

    # -- installation -----------------------------------------------------
    def _install(self):
        L, m = self.L, self.L.m
        reg = L.registry
        for name, (fn, pats) in list(reg.items()):
            self._orig_registry[name] = (fn, pats)
            reg[name] = (self._wrap_rule(name, fn), pats)

        mon = self
        self.missing = [n for n in ("_match_regex", "_preprocess_string", "timeout_", "apply_postprocessing_rules") if not hasattr(m, n)]
        # an attach point that a refactoring removed or renamed is recorded, not fatal: the checks that need what it
        # observes turn inconclusive (Monitors.need), the others go on
        orig_match = getattr(m, "_match_regex", None)

        def _match_regex(txt, regexes):
            res = orig_match(txt, regexes)
            mon.case_matches = [(r.id, r.mstart, r.mend) for r in res]
            mon.case_search_text = txt     # the text the match positions refer to (normalised, labels cut out)
            for r in res:
                if r.mend <= r.mstart:
                    mon.events["zero_length_match"] += 1
                    mon.zero_length.append((r.id, r.mstart, txt))
            mon.events["regex_match"] += len(res)
            mon.events["match_regex_call"] += 1
            return res

        if orig_match is not None:
            self.p.set(m, "_match_regex", _match_regex)

        orig_pre = getattr(m, "_preprocess_string", None)

        def _preprocess_string(txt):
            r = orig_pre(txt)
            mon.case_norm = r
            mon.events["preprocess_call"] += 1
            return r

        if orig_pre is not None:
            self.p.set(m, "_preprocess_string", _preprocess_string)

        orig_timeout = getattr(m, "timeout_", None)

        def timeout_(t):
            f = orig_timeout(t)
            mon.case_steps = 0
            mon.case_rule_calls = 0

            def t_fun():
                mon.case_steps += 1
                if mon.step_budget and mon.case_steps > mon.step_budget:
                    mon.events["step_budget_exceeded"] += 1
                    raise StepBudget("deadline-check calls > %d" % mon.step_budget)
                return f()

            return t_fun

        if orig_timeout is not None:
            self.p.set(m, "timeout_", timeout_)

        orig_post = getattr(m, "apply_postprocessing_rules", None)

        def apply_postprocessing_rules(ts, art):
            before = V.full(art) if mon.track_post else None
            res = orig_post(ts, art)
            mon.events["latent_postprocess"] += 1
            if mon.track_post:
                # (the value handed to latent anchoring, a snapshot of it taken before the call, what came back)
                mon.post_log.append((art, before, res))
            if mon.track_prov and res is not art:
                mon.prov[id(res)] = mon.prov.get(id(art), set())
                mon.prov_keep.append(res)
            if mon.track_feat:
                mon.feats.add("latent(%s)->%s" % (shape(art), shape(res)))
            return res

        if orig_post is not None:
            self.p.set(m, "apply_postprocessing_rules", apply_postprocessing_rules)

    def _wrap_rule(self, name, fn):
        mon = self
        snap = self.snapshots

        def monitored(ts, *args):
            mon.rule_calls[name] += 1
            mon.case_rule_calls += 1
            if mon.rule_budget and mon.case_rule_calls > mon.rule_budget:
                mon.events["step_budget_exceeded"] += 1
                raise StepBudget("rule applications > %d" % mon.rule_budget)
            before = [V.full(a) for a in args] if snap else None
            try:
                res = fn(ts, *args)
            except BaseException as e:  # recorded, re-raised
                mon.case_raises.append((name, type(e).__name__, [V.jsonable(V.val(a)) for a in args]))
                mon.events["rule_raise"] += 1
                raise
            if snap:
                after = [V.full(a) for a in args]
                if after != before:
                    mon.snap_breaches.append((name, V.jsonable(before), V.jsonable(after)))
                mon.events["rule_arg_snapshot"] += 1
            if res is not None:
                mon.rule_fired[name] += 1
                mon.case_rules[name] += 1
                if mon.track_feat:
                    mon.feats.add("%s<%s>" % (name, ",".join("R" if type(a).__name__ == "RegexMatch" else mon.producer.get(id(a), "?") for a in args)))
                    mon.feats.add("%s(%s)->%s" % (name, ",".join(shape(a) for a in args), shape(res)))
                    mon.producer[id(res)] = name
                    mon.prov_keep.append(res)
                if mon.track_prov:
                    pv = set()
                    for a in args:
                        if type(a).__name__ == "RegexMatch":
                            pv.add((a.mstart, a.mend, a.id))
                        else:
                            pv |= mon.prov.get(id(a), set())
                    mon.prov[id(res)] = pv
                    mon.prov_keep.append(res)
            return res

        monitored.__name__ = getattr(fn, "__name__", "wrapper")
        monitored.__wrapped_rule__ = fn
        return monitored

    def need(self, *names):
        """None if all these attach points exist, else an inconclusive result naming the missing ones"""
        miss = [n for n in names if n in self.missing]
        if miss:
            return {"st": "inconc", "msg": "attach point(s) %s no longer exist in ctparse.ctparse: what they observe is needed to decide this case" % miss}
        return None

    def uninstall(self):
        reg = self.L.registry
        for name, ent in self._orig_registry.items():
            reg[name] = ent
        self.p.undo()

    # -- per case ---------------------------------------------------------
    def begin(self):
        self.case_rules = Counter()
        self.case_matches = []
        self.case_norm = None
        self.case_search_text = None
        self.case_raises = []
        self.snap_breaches = []
        self.prov = {}
        self.prov_keep = []
        self.feats = set()
        self.producer = {}
        self.post_log = []


class FixedNow:
    """Replace the name ``datetime`` in ctparse.ctparse by a subclass whose clock is fixed (used for the
    omitted-reference-time cases).  The host is modelled as being ``utc_offset`` away from UTC: now()/today() give the
    local wall time ``now``; now(tz), utcnow() give the same instant in that zone / in UTC -- so code that reads the clock
    in UTC and drops the zone is NOT the current (local) time unless the offset is zero."""

    def __init__(self, L, now, utc_offset=None):
        import datetime as _dt

        off = utc_offset if utc_offset is not None else _dt.timedelta(0)
        reads = self.reads = []

        class _DT(_dt.datetime):
            @classmethod
            def now(cls, tz=None):
                reads.append("now(tz)" if tz is not None else "now()")
                if tz is None:
                    return now
                return (now - off).replace(tzinfo=_dt.timezone.utc).astimezone(tz)

            @classmethod
            def today(cls):
                reads.append("today()")
                return now

            @classmethod
            def utcnow(cls):
                reads.append("utcnow()")
                return now - off

        self.p = Patches()
        self.p.set(L.m, "datetime", _DT)

    def undo(self):
        self.p.undo()
