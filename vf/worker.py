"""One shard of a workload in its own subprocess: runs the real code under the
monitors and writes one JSON result per case."""
import faulthandler
import json
import os
import sys
import traceback

from . import env


def _repo_frame(tb):
    """innermost frame of a traceback that lies in the tree under observation"""
    best = None
    for fs in traceback.extract_tb(tb):
        if os.path.abspath(fs.filename).startswith(env.REPO + os.sep):
            best = "%s:%s" % (os.path.relpath(fs.filename, env.REPO), fs.name)
    return best


def guarded(prop, case, ctx):
    """run one case; an exception that escapes from library code is an
    observation about the library (violation 'raises'), one from the harness is
    inconclusive"""
    from .attach import StepBudget
    try:
        r = prop.run_case(case, ctx)
    except StepBudget as e:
        r = {"st": "skip", "sig": "step-budget", "msg": str(e)}
    except Exception as e:  # noqa
        fr = _repo_frame(e.__traceback__)
        tbs = traceback.format_exc()[-1800:]
        if fr is not None and getattr(prop, "RAISE_IS_VIOLATION", True):
            r = {"st": "viol", "sig": "raises/%s@%s" % (type(e).__name__, fr), "msg": "%s: %s" % (type(e).__name__, e), "trace": tbs}
        else:
            r = {"st": "inconc", "sig": "harness-error", "msg": tbs}
    r["_i"] = case.get("_i")
    return r


def make_ctx(prop, tier, seed, trace=False):
    from . import attach
    L = attach.lib()
    mon = attach.Monitors(L, snapshots=getattr(prop, "SNAPSHOTS", False))
    ctx = {"L": L, "mon": mon, "tier": tier, "seed": seed, "trace": trace}
    if hasattr(prop, "setup_worker"):
        prop.setup_worker(ctx)
    return ctx


def run_inline(pid, case, trace=False):
    import importlib
    env.setup_path()
    prop = importlib.import_module("vf.props.%s" % pid)
    ctx = make_ctx(prop, "quick", 0, trace=trace)
    r = guarded(prop, case, ctx)
    r["case"] = case
    return r


def main():
    inp, out = sys.argv[1], sys.argv[2]
    with open(inp) as fd:
        job = json.load(fd)
    import importlib
    env.setup_path()
    prop = importlib.import_module("vf.props.%s" % job["pid"])
    wd = getattr(prop, "WATCHDOG_S", {"quick": 900, "thorough": 7200})[job["tier"]]
    faulthandler.dump_traceback_later(wd, exit=True)
    ctx = make_ctx(prop, job["tier"], job["seed"])
    mon = ctx["mon"]
    n_obs = 0
    with open(out, "w") as fo:
        for case in job["cases"]:
            r = guarded(prop, case, ctx)
            if r["st"] == "ok":
                # keep the observation of a few cases per class for the evidence samples
                if n_obs < 40 and r.get("obs") is not None:
                    n_obs += 1
                else:
                    r.pop("obs", None)
                r.pop("trace", None)
            fo.write(json.dumps(r, ensure_ascii=False, default=str) + "\n")
        summ = {"_summary": True, "events": dict(mon.events), "rules_fired": dict(mon.rule_fired), "extra": {}}
        if hasattr(prop, "worker_summary"):
            summ["extra"] = prop.worker_summary(ctx)
        fo.write(json.dumps(summ, default=str) + "\n")
    faulthandler.cancel_dump_traceback_later()


if __name__ == "__main__":
    main()
