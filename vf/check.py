"""Coordinator: ``python -m vf.check <id> --tier quick|thorough [--replay p]``.

Generates the cases of a property, shards them over worker subprocesses that
run the real code under the monitors, aggregates what the monitors observed,
classifies violations against known_findings.json, writes evidence/<id>.json
and replay files, and decides the three-valued verdict (exit 0 held, 1
violated, 2 inconclusive).
"""
import argparse
import importlib
import json
import os
import shutil
import subprocess
import sys
import time
from collections import Counter, defaultdict

from . import env

NPROC = int(os.environ.get("VERIF_JOBS", "0")) or min(16, os.cpu_count() or 4)


def load_prop(pid):
    return importlib.import_module("vf.props.%s" % pid)


def load_known():
    p = os.path.join(env.VERIF, "known_findings.json")
    if not os.path.exists(p):
        return {"findings": [], "fixed": []}
    with open(p) as fd:
        return json.load(fd)


def run_workers(pid, cases, tier, seed, workdir, timeout_s):
    """shard round-robin (cases are pre-shuffled by the generators where order
    matters) and run one subprocess per shard"""
    n = max(1, min(NPROC, len(cases)))
    shards = [[] for _ in range(n)]
    for i, c in enumerate(cases):
        c["_i"] = i
        shards[i % n].append(c)
    procs = []
    for k, sh in enumerate(shards):
        inp = os.path.join(workdir, "shard%02d.in.json" % k)
        out = os.path.join(workdir, "shard%02d.out.jsonl" % k)
        with open(inp, "w") as fd:
            json.dump({"pid": pid, "tier": tier, "seed": seed, "cases": sh}, fd)
        errp = os.path.join(workdir, "shard%02d.err" % k)
        pr = subprocess.Popen(
            [env.PY, "-m", "vf.worker", inp, out],
            cwd=env.VERIF, env=env.child_env(), stdout=subprocess.DEVNULL,
            stderr=open(errp, "w"),
        )
        procs.append((pr, out, errp, sh))
    results, summaries, problems = [], [], []
    deadline = time.time() + timeout_s
    for pr, out, errp, sh in procs:
        try:
            pr.wait(timeout=max(1, deadline - time.time()))
        except subprocess.TimeoutExpired:
            pr.kill()
            pr.wait()
            problems.append("watchdog: worker exceeded %ds" % timeout_s)
        got = 0
        if os.path.exists(out):
            with open(out) as fd:
                for line in fd:
                    try:
                        r = json.loads(line)
                    except ValueError:
                        continue
                    if r.get("_summary"):
                        summaries.append(r)
                    else:
                        if r["st"] != "ok" or "obs" in r:
                            r["case"] = {k: v for k, v in cases[r["_i"]].items() if k != "_i"}
                        results.append(r)
                        got += 1
        if got < len(sh) or pr.returncode != 0:
            tail = ""
            try:
                tail = open(errp).read()[-1500:]
            except OSError:
                pass
            problems.append("worker rc=%s returned %d/%d results; stderr: %s" % (pr.returncode, got, len(sh), tail))
    return results, summaries, problems


def main(argv=None):
    ap = argparse.ArgumentParser()
    ap.add_argument("pid")
    ap.add_argument("--tier", default=os.environ.get("VERIF_TIER", "quick"), choices=["quick", "thorough"])
    ap.add_argument("--seed", type=int, default=int(os.environ.get("VERIF_SEED", "0") or 0))
    ap.add_argument("--replay")
    ap.add_argument("--limit", type=int, default=0, help="debug: only the first N cases")
    ap.add_argument("--keep", action="store_true")
    a = ap.parse_args(argv)
    pid = a.pid
    t0 = time.time()
    env.ensure_deps()
    env.setup_path()
    prop = load_prop(pid)

    if a.replay:
        from . import worker
        with open(a.replay) as fd:
            rp = json.load(fd)
        r = worker.run_inline(pid, rp["case"], trace=True)
        print(json.dumps(r, indent=1, default=str, ensure_ascii=False))
        if r["st"] == "viol":
            print("VIOLATION property=%s replay=%s" % (pid, a.replay))
            return 1
        return 0 if r["st"] in ("ok", "excl", "skip") else 2

    workdir = os.path.join(env.OUT, "out", "work", "%s-%d" % (pid, os.getpid()))
    os.makedirs(workdir, exist_ok=True)
    problems = []
    try:
        cases = prop.gen_cases(a.tier, a.seed)
        if a.limit:
            cases = cases[: a.limit]
        budget = getattr(prop, "WATCHDOG_S", {"quick": 900, "thorough": 7200})[a.tier]
        results, summaries, problems = run_workers(pid, cases, a.tier, a.seed, workdir, budget) if cases else ([], [], [])
        if hasattr(prop, "run_special"):
            sp_res, sp_sum = prop.run_special(a.tier, a.seed, workdir)
            results += sp_res
            summaries += sp_sum
    finally:
        if not a.keep:
            shutil.rmtree(workdir, ignore_errors=True)

    return finish(pid, prop, a.tier, a.seed, results, summaries, problems, time.time() - t0)


def finish(pid, prop, tier, seed, results, summaries, problems, wall):
    known = load_known()
    listed = {f["signature"]: f for f in known.get("findings", []) if f["property"] == pid}
    by_st = Counter(r["st"] for r in results)
    events = Counter()
    rules = Counter()
    extra = defaultdict(Counter)
    for s in summaries:
        events.update(s.get("events", {}))
        rules.update(s.get("rules_fired", {}))
        for k, v in s.get("extra", {}).items():
            if isinstance(v, dict):
                extra[k].update(v)
    distinct = set()
    classes = Counter()
    excl = Counter()
    skips = Counter()
    for r in results:
        if r["st"] in ("ok", "viol") and r.get("nt") and r.get("key") is not None:
            distinct.add(r["key"])
        if r.get("cls"):
            classes[r["cls"]] += 1
        if r["st"] == "excl":
            excl[r.get("sig") or "?"] += 1
        if r["st"] == "skip":
            skips[r.get("sig") or "?"] += 1
        for k, v in (r.get("ev") or {}).items():
            events[k] += v

    viols = [r for r in results if r["st"] == "viol"]
    known_hits = defaultdict(list)
    unknown = []
    for r in viols:
        if r.get("sig") in listed:
            known_hits[r["sig"]].append(r)
        else:
            unknown.append(r)
    inconc = [r for r in results if r["st"] == "inconc"]

    # triage aid: every violation of the last run (listed or not), one JSON line each
    ddir = os.path.join(env.OUT, "out", "last")
    os.makedirs(ddir, exist_ok=True)
    with open(os.path.join(ddir, "%s-%s.viol.jsonl" % (pid, tier)), "w") as fd:
        for r in viols:
            fd.write(json.dumps({"sig": r.get("sig"), "msg": r.get("msg"), "cls": r.get("cls")}, ensure_ascii=False, default=str) + "\n")
    # replay files for unlisted violations
    rdir = os.path.join(env.OUT, "replays", pid)
    out_lines = []
    if unknown:
        os.makedirs(rdir, exist_ok=True)
        seen_sig = Counter()
        for r in unknown:
            seen_sig[r.get("sig")] += 1
            if seen_sig[r.get("sig")] > 3:
                continue
            path = os.path.join(rdir, "%s-%s-%d.json" % (tier, _slug(r.get("sig")), seen_sig[r.get("sig")]))
            with open(path, "w") as fd:
                json.dump({"property": pid, "sig": r.get("sig"), "msg": r.get("msg"), "case": r.get("case"),
                           "seed": seed, "tier": tier, "trace": r.get("trace")}, fd, indent=1, ensure_ascii=False, default=str)
            out_lines.append("VIOLATION property=%s replay=%s  # %s: %s" % (pid, os.path.relpath(path, env.OUT), r.get("sig"), (r.get("msg") or "")[:300]))
    for sig, rs in sorted(known_hits.items()):
        out_lines.append("KNOWN-FINDING: property=%s %s (%d cases this run; e.g. %s)" % (pid, listed[sig]["what"], len(rs), (rs[0].get("msg") or "")[:160]))

    # verdict
    verdict = "held"
    reasons = []
    post = getattr(prop, "post_check", None)
    if post:
        for kind_, msg in post(results, summaries, events, rules, tier):
            if kind_ == "inconclusive":
                reasons.append(msg)
            elif kind_ == "violation":
                os.makedirs(rdir, exist_ok=True)
                path = os.path.join(rdir, "%s-post-%d.json" % (tier, len(out_lines)))
                with open(path, "w") as fd:
                    json.dump({"property": pid, "sig": "post", "msg": msg, "case": None, "seed": seed, "tier": tier}, fd, indent=1)
                out_lines.append("VIOLATION property=%s replay=%s  # %s" % (pid, os.path.relpath(path, env.OUT), msg[:300]))
                unknown.append({"sig": "post", "msg": msg})
    if problems:
        reasons += problems
    if inconc:
        reasons.append("%d inconclusive cases, e.g. %s" % (len(inconc), (inconc[0].get("msg") or "")[:300]))
    n_eval = sum(by_st[s] for s in ("ok", "viol"))
    if n_eval == 0:
        reasons.append("no case was evaluated")
    if unknown:
        verdict = "violated"
    elif reasons:
        verdict = "inconclusive"

    samples = getattr(prop, "pick_samples", _pick_samples)(results)
    cov = {
        "evaluations": int(n_eval),
        "distinct_nontrivial": len(distinct),
        "rule": getattr(prop, "RULE", ""),
        "samples": samples,
        "exhaustive": bool(getattr(prop, "EXHAUSTIVE", {}).get(tier, False)),
        "by_status": dict(by_st),
        "by_class": dict(classes.most_common(80)),
        "excluded_by_class": dict(excl),
        "skipped_by_class": dict(skips),
        "events_observed": dict(events),
        "rules_fired": dict(rules),
        "rules_silent": sorted(set(getattr(prop, "ALL_RULES", lambda: [])()) - set(k for k, v in rules.items() if v)) if hasattr(prop, "ALL_RULES") else None,
        "known_findings_matched": {k: len(v) for k, v in known_hits.items()},
        "verdict": verdict,
        "inconclusive_reasons": reasons[:10],
        "workers": NPROC,
    }
    for k, v in extra.items():
        cov[k] = dict(v)
    if getattr(prop, "LEVEL", "exploration") == "other":
        cov["explanation"] = getattr(prop, "EXPLANATION", "")
    more = getattr(prop, "extra_coverage", None)
    if more:
        cov.update(more(results, summaries))
    ev = {
        "property_id": pid,
        "tier": tier,
        "seed": int(seed),
        "level": getattr(prop, "LEVEL", "exploration"),
        "coverage": cov,
        "assumptions": getattr(prop, "ASSUMPTIONS", []),
        "wall_s": round(wall, 2),
        "violations": len(unknown),
    }
    os.makedirs(os.path.join(env.OUT, "evidence"), exist_ok=True)
    with open(os.path.join(env.OUT, "evidence", "%s.json" % pid), "w") as fd:
        json.dump(ev, fd, indent=1, ensure_ascii=False, default=str)
        fd.write("\n")

    for ln in out_lines:
        print(ln)
    if unknown:
        print("unlisted violation signatures: %s" % dict(Counter(r.get("sig") for r in unknown).most_common(40)))
    print("%s %s tier=%s seed=%d: %s; evaluated=%d distinct_nontrivial=%d status=%s wall=%.1fs" % (
        pid, getattr(prop, "TITLE", ""), tier, seed, verdict.upper(), n_eval, len(distinct), dict(by_st), wall))
    if verdict == "inconclusive":
        print("INCONCLUSIVE property=%s reason=%s" % (pid, " | ".join(reasons)[:1500]))
    return {"held": 0, "violated": 1, "inconclusive": 2}[verdict]


def _slug(s):
    s = str(s or "x")
    return "".join(ch if ch.isalnum() or ch in "-_" else "_" for ch in s)[:60]


def _pick_samples(results, n=6):
    out, seen = [], set()
    for r in results:
        if r["st"] != "ok" or not r.get("nt"):
            continue
        c = r.get("cls") or r.get("key")
        if c in seen:
            continue
        seen.add(c)
        out.append({"case": {k: v for k, v in (r.get("case") or {}).items() if not k.startswith("_")}, "observed": r.get("obs")})
        if len(out) >= n:
            break
    return out or [{"note": "no non-trivial passing case"}]


if __name__ == "__main__":
    sys.exit(main())
