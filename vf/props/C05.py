"""C05 — absolute dates/times mean what they say, independent of the reference
time.  Monitor: API recorder, >= 3 executions per text; oracle: exact value,
reference-time invariance, notation agreement."""
from datetime import date, datetime, timedelta

from ..spec import cal, grammar as G, values as V
from . import common as C

TITLE = "absolute dates"
LEVEL = "exploration"
RULE = ("case = (calendar date 1990-2029, date notation, optional clock notation + connecting word, three reference "
        "times 1975..2099 incl. the day itself); thorough: every one of the 14 610 dates with four rotating notations; "
        "quick: all month ends, Februaries, single-digit days/months + seeded sample. Oracle: exact (y, m, d, h, mi) under "
        "every reference time. non-trivial = all executions returned a resolution and a rule fired; distinct on "
        "(text, reference times).")
ASSUMPTIONS = ["configuration D (timeout=0); configuration E (max_stack_depth=0) is run only to label a failure as beam truncation",
               "excluded as the property states: month-name notations whose 4-digit year reads as hh:mm with mm a multiple of 5",
               "'dd/mm/yy' is not in the grammar ('/' is also the range joiner)"]

REFS = ["1975-06-01T10:00:00", "1999-12-31T23:59:59", "2000-02-29T00:00:00", "2021-03-10T12:43:30",
        "2050-07-04T08:15:00", "2099-12-31T23:59:59.999999"]


def _mk(r, d, nn, with_clock):
    fn, fl = G.DATE_NOTATIONS[nn]
    text = fn(d.year, d.month, d.day)
    c = {"y": d.year, "m": d.month, "d": d.day, "n": nn, "f": text}
    if with_clock:
        cn = r.choice(G.DATE_CLOCKS)
        cf, cfl = G.CLOCK[cn]
        for _ in range(20):
            h, mi = r.randrange(24), r.choice([0, 0, 5, 30, 45, r.randrange(60)])
            ct = cf(h, mi)
            if ct is not None:
                break
        if ct is None:
            mi = 0
            ct = cf(h, 0)
        j = r.choice(G.DATE_CLOCK_JOIN)
        c.update({"cn": cn, "j": j.strip() or "_", "h": h, "mi": mi, "f": text + j + ct})
    refs = r.sample(REFS, 2)
    own = datetime(d.year, d.month, d.day, r.randrange(24), r.randrange(60))
    refs.append(C.iso(r.choice([own, own - timedelta(days=1), own + timedelta(days=1), own.replace(month=1, day=1)])))
    c["refs"] = refs
    return c


def gen_cases(tier, seed):
    r = C.rng(seed, "C05")
    cases = []
    d0, d1 = date(1990, 1, 1), date(2029, 12, 31)
    alld = [d0 + timedelta(days=i) for i in range((d1 - d0).days + 1)]
    nots = list(G.DATE_NOTATIONS)
    k = r.randrange(100)
    if tier == "thorough":
        for d in alld:
            for j in range(4):
                k += 1
                cases.append(_mk(r, d, nots[k % len(nots)], with_clock=(j >= 2)))
    else:
        sel = [d for d in alld if d.day == cal.mlen(d.year, d.month) or d.day == 1 or (d.month == 2 and d.day >= 27)
               or (d.day < 10 and d.month < 10 and d.year % 7 == 0)]
        sel += r.sample(alld, 1500)
        for d in sel:
            k += 1
            cases.append(_mk(r, d, nots[k % len(nots)], with_clock=(k % 3 == 0)))
        # every notation at least 25 times without and with clock
        for nn in nots:
            for i in range(25):
                cases.append(_mk(r, r.choice(alld), nn, with_clock=bool(i % 2)))
    # calendar corner dates under EVERY notation, with and without clock, in both tiers
    special = [date(y, 2, 29) for y in range(1992, 2029, 4)] + [date(y, 2, 28) for y in (1999, 2000, 2001, 2023)] + \
              [date(y, 12, 31) for y in (1999, 2000, 2019, 2029)] + [date(y, 1, 1) for y in (1990, 2000, 2001, 2020)] + \
              [date(2000, 3, 1), date(2004, 3, 1), date(2010, 10, 10), date(2011, 11, 11), date(2012, 12, 12), date(2001, 1, 31), date(2003, 8, 31)]
    for d in special:
        for nn in nots:
            cases.append(_mk(r, d, nn, with_clock=False))
            if tier == "thorough" or d.month == 2:
                cases.append(_mk(r, d, nn, with_clock=True))
    r.shuffle(cases)
    return cases


def run_case(case, ctx):
    fn, fl = G.DATE_NOTATIONS[case["n"]]
    y, m, d = case["y"], case["m"], case["d"]
    has_clock = "cn" in case
    cls = case["n"] + ("+%s/%s" % (case["cn"], case["j"]) if has_clock else "")
    key = "%s|%s" % (case["f"], ",".join(case["refs"]))
    if fl.get("named") and G.reads_as_military(y):
        return {"st": "excl", "sig": "named-month-notation:year-reads-as-military-time", "key": key, "cls": cls}
    exp = V.T(y, m, d, case["h"], case["mi"]) if has_clock else V.T(y, m, d)
    gots = []
    for ref in case["refs"]:
        ts = C.parse_ts(ref)
        r = C.api(ctx, case["f"], ts)
        gots.append((ref, C.resv(r), r))
    badk = [(ref, g, r) for ref, g, r in gots if g != exp]
    if not badk:
        return C.ok(key, cls, nt=bool(ctx["mon"].case_rules), obs_={"text": case["f"], "refs": case["refs"], "got": V.show(exp)})
    ref, g, r = badk[0]
    ts = C.parse_ts(ref)
    vals = set(x[1] for x in gots)
    if fl.get("yy") and y < 2000 and all(x[1] == (exp[:1] + (y + 100,) + exp[2:]) for x in gots):
        sig = "two-digit-year-19xx-maps-to-20xx"
    else:
        e = C.diag_E(ctx, case["f"], ts, exp)
        mech = {"E-ok": "beam-truncation", "E-fails": "wrong", "E-raises": "raises-under-E"}[e]
        if mech != "beam-truncation" and len(vals) > 1 and len(badk) < len(gots):
            mech += "+reference-time-dependent"
        what = "date" if (g is None or g[0] != "T" or V.t_date(g) != (y, m, d)) else "clock"
        fam = case["n"] + ("+clock" if has_clock else "")
        sig = "%s/%s" % (mech, fam) if mech.startswith("beam-truncation") else "%s/%s/%s" % (mech, what, cls)
    return C.viol(sig, "%r at %s: expected %s, got %s via %s (all: %s)" % (
        case["f"], ref, V.show(exp), V.show(g), C.obs(r), [V.show(x[1]) for x in gots]), key, cls)


def post_check(results, summaries, events, rules, tier):
    if not events.get("api_return"):
        yield ("inconclusive", "API monitor observed no call")
    need = ["ruleDDMMYYYY", "ruleYear", "ruleDOYYear", "ruleDOMMonth", "ruleDOMMonth2", "ruleMonthDOM", "ruleDateTOD", "ruleNamedMonth"]
    silent = [n for n in need if not rules.get(n)]
    if silent:
        yield ("inconclusive", "rules never observed to fire: %s" % silent)
