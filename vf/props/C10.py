"""C10 — subject and labels partition the non-time words: nothing invented or
leaked.  API recorder + provenance reconstructed from the rule-application
events + observed inertness; metamorphic with/without hashtags and with/without
the time expression."""
import re
from datetime import datetime

from ..spec import derive_ref as D, grammar as G, values as V
from . import common as C

TITLE = "subject and labels"
LEVEL = "exploration"
RULE = ("case = a text assembled from ordinary words, valid hashtags ([A-Za-z_][A-Za-z0-9_-]*) and one time expression in a "
        "seeded random relative order with single- and multi-character separators of the library's separator class; four "
        "executions: full, without hashtags, without the expression, without both. Oracles: labels == the hashtags put in, in "
        "order, without '#', in all runs; no hashtag in any subject; hashtags change neither resolution nor subject; the "
        "subject is an ordered sub-sequence of the input's words, keeps every word the match monitor observed inert and "
        "drops every word lying wholly inside a pattern match in the provenance of the returned resolution (provenance "
        "reconstructed from rule-application events); with all other words inert and the expression fully consumed, the "
        "no-match path gives the same labels and subject. non-trivial = the full text resolves and has >= 1 hashtag and >= 1 "
        "word; distinct on (text, reference time).")
ASSUMPTIONS = ["configuration D (timeout=0)", "a free-standing '-' is not used between words (dashes are not in the library's separator class; the subject "
               "splits on them by design), hyphenated ordinary words are; hashtags are placed between the pieces, never inside the time expression",
               "words that are neither observed inert nor in the provenance of the result are unconstrained"]

WORDS = ["zzz", "qqq", "lorem", "beers", "burgers", "gift", "pizza", "buy", "kwyjibo", "flug", "hotel", "zug", "with", "bob", "alice", "projekt",
         "review", "yoga", "lunch", "besprechung", "sync", "flight", "paris", "report", "send", "pay", "rent", "gym", "party", "zahnarzt",
         "geburtstag", "urlaub", "büro", "workshop", "deploy", "backup", "taxes", "groceries", "vet", "haircut", "books", "code", "ship", "plan",
         "Write", "READ", "Walk", "meeting", "call", "milk", "dentist", "follow-up", "x-ray", "e-mail", "check-in", "kick-off-termin"]
TAGS = ["work", "Family", "a1", "x-y", "_u", "To_Do", "p-1-2", "URGENT", "q", "home_office", "r2d2", "t-",
        # labels that are proper prefixes of other labels (in either text order)
        "work-2", "a1b", "x-y-z", "q2", "To_Do_2", "zq", "zq-1"]
SEPS = [" ", " ", " ", "  ", ", ", "; ", " , ", ",", "\t", " ( ", ") ", " [", "] ", "\n", " "]
TSS = ["2021-03-10T12:43:30", "2020-02-29T23:59:00", "2019-12-31T08:00:00", "2024-02-28T23:10:00"]


def gen_cases(tier, seed):
    from ..attach import lib
    lib()
    r = C.rng(seed, "C10")
    from ctparse.time.corpus import corpus
    corp = [t for target, ts, tests in corpus for t in tests if "#" not in t]
    from . import streams as S
    cov = [e["t"] for e in S.cov_entries() if "#" not in e["t"]]
    cases = []
    for i in range(20000 if tier == "thorough" else 4000):
        if i % 4 == 0:
            e = r.choice(corp)
            cls = "corpus"
        elif i % 16 == 1 and cov:
            e = r.choice(cov)
            cls = "coverage-corpus"
        else:
            c, e = G.expression(r)
            cls = c.split("/")[0]
        nw, nt = r.choice([(1, 1), (2, 1), (3, 2), (0, 1), (2, 0), (4, 3), (1, 2), (0, 0), (5, 1)])
        items = [["w", w] for w in r.sample(WORDS, nw)] + [["h", t] for t in r.sample(TAGS, nt)] + [["e", e]]
        if r.random() < 0.35:
            # a word made of a piece of the expression's own text ('row' of 'tomorrow', 'we' of 'wednesday'): whether it is
            # inert is observed at run time; equality-by-substring slips hide here
            ws = [w for w in re.split(r"[^A-Za-zäöüß]+", e) if len(w) >= 4]
            if ws:
                w = r.choice(ws)
                a = r.randrange(0, len(w) - 1)
                piece = w[a:a + r.randrange(2, 4)]
                if len(piece) >= 2:
                    items.append(["w", piece.lower()])
        if nt and r.random() < 0.15:
            # a plain word that is character for character the body of one of the text's own hashtags ('gym ... #gym')
            plain = [x for k, x in items if k == "h" and "-" not in x]
            if plain:
                items.append(["w", r.choice(plain)])
        if nt and r.random() < 0.2:
            # the same hashtag written again (once or twice): each occurrence is a label, at its own place
            for _ in range(r.choice((1, 1, 2))):
                items.append(["h", r.choice([x for k, x in items if k == "h"])])
        r.shuffle(items)
        seps = [r.choice(SEPS) for _ in range(len(items) + 1)]
        cases.append({"items": items, "seps": seps, "ts": r.choice(TSS), "c": cls, "lead": r.random() < 0.2, "trail": r.random() < 0.2})
    return cases


def _build(case, with_tags=True, with_expr=True):
    parts = []
    for (k, x), s in zip(case["items"], case["seps"][1:]):
        if k == "h":
            if not with_tags:
                continue
            x = "#" + x
        if k == "e" and not with_expr:
            continue
        parts.append(x + s)
    t = "".join(parts)
    t = t.rstrip() if not case["trail"] else t
    return (case["seps"][0] if case["lead"] else "") + t


def _words(txt):
    """(word, start, end) tokens of a normalised, label-free text"""
    return [(m.group(0), m.start(), m.end()) for m in re.finditer(r"\S+", txt)]


def _is_subseq(sub, full):
    it = iter(full)
    return all(any(x == y for y in it) for x in sub)


def run_case(case, ctx):
    L, mon = ctx["L"], ctx["mon"]
    miss = ctx["mon"].need("_match_regex", "_preprocess_string")
    if miss:
        return miss
    mon.track_prov = True
    ts = C.parse_ts(case["ts"])
    tags = [x for k, x in case["items"] if k == "h"]
    expr = [x for k, x in case["items"] if k == "e"][0]
    full = _build(case)
    key = "%s|%s" % (full, case["ts"])
    cls = case["c"]
    probs = []

    clean = {}

    def run(text):
        r = C.api(ctx, text, ts)
        norm = mon.case_norm if mon.case_norm is not None else ""
        clean[id(r)] = D.strip_labels(norm)     # the normalised text without its labels: what character spans refer to
        return r, (mon.case_search_text if mon.case_search_text is not None else D.strip_labels(norm)), list(mon.case_matches), \
            (set(mon.prov.get(id(r.resolution), set())) if r is not None and r.resolution is not None else None)

    r_full, norm_full, matches_full, prov = run(full)
    r_not, norm_not, _, _ = run(_build(case, with_tags=False))
    r_noe, norm_noe, matches_noe, _ = run(_build(case, with_expr=False))
    r_none, _, _, _ = run(_build(case, with_tags=False, with_expr=False))
    mon.events["quad_compared"] += 1
    for name, r in (("full", r_full), ("no-hashtags", r_not), ("no-expression", r_noe), ("neither", r_none)):
        if r is None:
            return C.viol("no-result-object", "%s run returned None" % name, key, cls)
    # A. labels
    for name, r, want in (("full", r_full, tags), ("no-hashtags", r_not, []), ("no-expression", r_noe, tags), ("neither", r_none, [])):
        if list(r.labels) != want:
            probs.append(("labels/" + name + ("/no-match-path" if r.resolution is None else ""), "%s: labels %r, hashtags put in %r" % (name, r.labels, want)))
    # B. hashtags never in the subject
    for name, r in (("full", r_full), ("no-expression", r_noe)):
        sw = r.subject.split()
        # (a plain word that happens to equal a hashtag's body is a word, not the hashtag: it may be there as often as the
        # label-free text has it)
        plain = [x for w in clean[id(r)].split() for x in re.split(r"-+", w) if x]
        if "#" in r.subject or any(sw.count(t) > plain.count(t) for t in tags):
            probs.append(("hashtag-in-subject/" + name, "%s: subject %r contains a hashtag of %r" % (name, r.subject, tags)))
    # C. hashtags change neither resolution nor the rest of the subject
    if C.resv(r_full) != C.resv(r_not):
        # label only: is the depth limit the only reason? (identical call with max_stack_depth=0)
        try:
            eq0 = C.resv(C.api(ctx, full, ts, max_stack_depth=0)) == C.resv(C.api(ctx, _build(case, with_tags=False), ts, max_stack_depth=0))
        except Exception:
            eq0 = False
        probs.append((("beam-truncation/" if eq0 else "") + "hashtags-change-resolution", "with hashtags %s, without %s" % (V.show(C.resv(r_full)), V.show(C.resv(r_not)))))
    elif r_full.resolution is not None:
        # ... nor the characters its span delimits (C09's span clause, with labels in the text: offsets refer to the
        # normalised text with the labels cut out and the blanks they leave behind collapsed)
        cf = clean[id(r_full)][r_full.resolution.mstart:r_full.resolution.mend]
        cn = clean[id(r_not)][r_not.resolution.mstart:r_not.resolution.mend]
        mon.events["span_with_hashtags_compared"] += 1
        if cf != cn:
            probs.append(("hashtags-shift-span", "span %s delimits %r with the hashtags, %r without them" % ((r_full.resolution.mstart, r_full.resolution.mend), cf, cn)))
    if r_full.subject != r_not.subject:
        probs.append(("hashtags-change-subject" + ("/no-match-path" if r_full.resolution is None else ""), "with hashtags %r, without %r" % (r_full.subject, r_not.subject)))
    if r_noe.subject != r_none.subject:
        probs.append(("hashtags-change-subject" + ("/no-match-path" if r_noe.resolution is None else ""), "(no expression) with hashtags %r, without %r" % (r_noe.subject, r_none.subject)))
    # D. subject of the full run: ordered sub-sequence, keeps inert words, drops provenance words
    stripped = norm_full      # the text the library searched in, as observed at _match_regex (match positions refer to it)
    toks = _words(stripped)
    sub = r_full.subject.split()
    input_words = []
    for w, s, e in toks:
        input_words += [x for x in re.split(r"-+", w) if x]     # the subject splits on '-' by design
    if not _is_subseq(sub, input_words):
        probs.append(("subject-not-a-subsequence" + ("/no-match-path" if r_full.resolution is None else ""), "subject %r is not an ordered sub-sequence of the words of %r" % (r_full.subject, stripped)))
    # "a word that no time pattern can match": no match of this run touches it AND no match of this run contains the same word
    # elsewhere in the text (the subject is built by word equality against the matched words, by design: the second
    # 'quarter' of 'one quarter quarter to 18 uhr' is a word a pattern can match)
    matched_words = set(x for (_id, ms, me) in matches_full for w in stripped[ms:me].split() for x in re.split(r"-+", w) if x)
    inert = [(w, s, e) for (w, s, e) in toks if not any(ms < e and me > s for (_id, ms, me) in matches_full)
             and not any(x in matched_words for x in re.split(r"-+", w) if x)]
    mon.events["inert_words_observed"] += len(inert)
    inert_words = [x for w, s, e in inert for x in re.split(r"-+", w) if x]
    if not _is_subseq(inert_words, sub):
        probs.append(("inert-word-lost" + ("/no-match-path" if r_full.resolution is None else ""), "words no pattern touched %r are not all kept (in order) in the subject %r" % (inert_words, r_full.subject)))
    # the same two clauses on the run without the expression (usually the no-match path)
    toks_n = _words(norm_noe)
    sub_n = r_noe.subject.split()
    words_n = [x for w, s_, e_ in toks_n for x in re.split(r"-+", w) if x]
    tag = "/no-match-path" if r_noe.resolution is None else ""
    if not _is_subseq(sub_n, words_n):
        probs.append(("subject-not-a-subsequence" + tag, "(no expression) subject %r is not an ordered sub-sequence of the words of %r" % (r_noe.subject, norm_noe)))
    matched_words_n = set(x for (_id, ms, me) in matches_noe for w in norm_noe[ms:me].split() for x in re.split(r"-+", w) if x)
    inert_n = [x for (w, s_, e_) in toks_n if not any(ms < e_ and me > s_ for (_id, ms, me) in matches_noe) for x in re.split(r"-+", w) if x and x not in matched_words_n]
    if not _is_subseq(inert_n, sub_n):
        probs.append(("inert-word-lost" + tag, "(no expression) words no pattern touched %r are not all kept (in order) in the subject %r" % (inert_n, r_noe.subject)))
    consumed_all = False
    if r_full.resolution is not None and prov:
        mon.events["provenance_reconstructed"] += 1
        inside = [w for (w, s, e) in toks if any(ms <= s and e <= me for (ms, me, _id) in prov)]
        leaked = [w for w in inside if w in sub]
        if leaked:
            probs.append(("time-word-leaked-into-subject", "words %r lie wholly inside matches the result was built from %s but are in the subject %r" % (leaked, sorted(prov)[:4], r_full.subject)))
        # was the whole expression consumed, and is everything else inert?
        non_inert = [w for (w, s, e) in toks if (w, s, e) not in inert]
        # ... and every word that is not part of the expression must itself have been observed inert (a piece such as
        # 'at' put next to 'late evening' becomes part of the expression and legitimately vanishes with it)
        others = [x for k, w in case["items"] if k == "w" for x in re.split(r"[\s-]+", L.m._preprocess_string(w)) if x]
        # (and no word of the expression itself was left over: a text of the coverage corpus is not one expression)
        consumed_all = sorted(non_inert) == sorted(inside) and all(o in inert_words for o in others) and sorted(inert_words) == sorted(others)
    # F. same labels and subject whether or not a time expression was found
    if consumed_all and r_noe.resolution is None:
        mon.events["no_match_path_compared"] += 1
        if r_noe.subject != r_full.subject:
            probs.append(("subject-differs-on-no-match-path", "with the expression %r, with it removed (nothing found) %r" % (r_full.subject, r_noe.subject)))
    if probs:
        return C.viol(probs[0][0], "%r at %s: %s" % (full, case["ts"], "; ".join(p[1] for p in probs[:2])), key, cls)
    nt = r_full.resolution is not None and bool(tags) and any(k == "w" for k, x in case["items"])
    return C.ok(key, cls, nt=nt, obs_={"text": full, "resolution": V.show(C.resv(r_full)), "subject": r_full.subject, "labels": r_full.labels,
                                      "inert_words": inert_words[:6], "no_match_subject": r_noe.subject})


def post_check(results, summaries, events, rules, tier):
    need = ("quad_compared", "inert_words_observed", "provenance_reconstructed", "no_match_path_compared")
    miss = [k for k in need if not events.get(k)]
    if miss:
        yield ("inconclusive", "events never observed: %s" % miss)
