"""C15 — the search yields exactly what the rules license (sound, complete,
pure).  Argument-snapshot wrappers around every registered rule, re-snapshots
of every yielded candidate, and an independent exhaustive derivation engine
per execution."""
import random
from datetime import datetime

from ..gen import texts as T
from ..spec import derive_ref as D, grammar as G, values as V
from . import common as C

TITLE = "search = what the rules license"
LEVEL = "other"
SNAPSHOTS = True
EXPLANATION = ("Reference model per execution: for each short text an independent engine enumerates all pattern matches, all "
               "maximal gap-free sequences of maximal coverage and the closure under all registered rules at all windows "
               "(real rule bodies, copied arguments). The real search is then run under several scorers and depth limits with "
               "argument snapshots around every rule application: every streamed value must lie in the closure (soundness), "
               "its reported production must replay to it (trace truth), without depth limit every value of every "
               "irreducible state must be streamed whichever scorer orders the search (completeness), no rule application "
               "may change its arguments and no yielded candidate may change later (purity). Held on the texts whose "
               "derivation graph fits the state cap; the others are counted as skipped.")
RULE = ("case = one short text (bundled corpus expressions, grammar expressions, token soup; <= 5 tokens) x scorers {constant, "
        "shipped, 3 seeded random} x depth {0 (all), 10, 1}; non-trivial = the closure has >= 2 states and a candidate was "
        "streamed; distinct on (text, reference time).")
ASSUMPTIONS = ["state cap 30 000 / sequence cap 20 000: larger derivation graphs are skipped and counted",
               "the reference engine shares the regex engine and the rule bodies with the library (it replaces the search, "
               "the pre-filter, the dedup tables and the ordering)"]
WATCHDOG_S = {"quick": 1200, "thorough": 7200}


def gen_cases(tier, seed):
    from ..attach import lib
    lib()
    r = C.rng(seed, "C15")
    from ctparse.time.corpus import corpus
    pool = []
    for target, ts, tests in corpus:
        for t in tests:
            if len(t.split()) <= 6 and len(t) <= 40:
                pool.append((t, ts + ":00"))
    r.shuffle(pool)
    n = 6000 if tier == "thorough" else 500
    cases = [{"t": t, "ts": ts} for t, ts in pool[: n // 2]]
    fixed = ["9 to 5", "8 8 8", "am 5. um 8", "heute 8 uhr", "at the 5th", "von 8 bis 10", "monday morning", "in the evening", "early morning",
             "3 days", "5.3. 8:00", "tomorrow 9-5", "half past 8", "first", "12am", "late very late evening"]
    cases += [{"t": t, "ts": "2021-03-10T12:43:30"} for t in fixed]
    # the same expression twice in one text (a rule that hands back a shared object shows only then)
    singles = ["midnight", "mitternacht", "noon", "tomorrow", "monday", "5pm", "12.12.", "heute", "morgen", "eom", "now", "first", "evening", "8 uhr", "3rd",
               "friday", "january", "2021", "half past 8", "one o'clock", "today", "jetzt", "nachts", "12am"]
    for i, e in enumerate(singles):
        for j, f in enumerate(("%s %s", "%s - %s", "%s bis %s", "sat %s - sun %s", "%s tomorrow %s")):
            if tier == "thorough" or (i + j) % 3 == 0 or i < 2:
                cases.append({"t": f % (e, e), "ts": "2020-03-04T10:00:00"})
    from . import streams as S
    cov = [e for e in S.cov_entries() if len(e["t"].split()) <= 5 and len(e["t"]) <= 36]
    cases += [{"t": e["t"], "ts": e["ts"]} for e in (cov if tier == "thorough" else r.sample(cov, min(len(cov), 30)))]
    while len(cases) < n:
        x = r.random()
        if x < 0.6:
            t = G.expression(r)[1]
        else:
            t = " ".join(r.choice(T.SOUP_TOKENS) for _ in range(r.randrange(1, 5)))
        if len(t.split()) <= 6 and len(t) <= 40:
            cases.append({"t": t, "ts": r.choice(["2021-03-10T12:43:30", "2020-02-29T23:59:00", "2019-12-31T08:00:00"])})
    # #labels inside and around the text, and runs of blanks: the search works on the text with the labels cut out
    extra = []
    for c in cases[::5]:
        toks = c["t"].split(" ")
        if len(toks) >= 2:
            i = r.randrange(1, len(toks))
            extra.append({"t": " ".join(toks[:i] + [r.choice(["#work", "#x-1", "#a #b"])] + toks[i:]), "ts": c["ts"]})
        extra.append({"t": r.choice(["#tag ", ""]) + c["t"] + r.choice([" #end", ""]), "ts": c["ts"]})
    # the same tokens in another order, run in the same process right after the text (state keyed on an order-insensitive
    # summary of an earlier text breaks completeness of the later one)
    import itertools
    for c in (cases + extra)[::4]:
        toks = c["t"].split(" ")
        if 3 <= len(toks) <= 4:
            perms = [" ".join(p) for p in itertools.permutations(toks)][1:]
            c["also"] = perms if len(perms) <= 5 else r.sample(perms, 6)
        elif len(toks) > 4:
            c["also"] = [" ".join(toks[::-1]), " ".join(toks[1:] + toks[:1])]
    for base in ["next week friday 5pm", "tomorrow at 5pm", "morgen um 8 uhr", "friday 13th 9am", "heute abend 20 uhr", "monday morning 9-5"]:
        toks = base.split(" ")
        cases.append({"t": base, "ts": "2021-03-03T12:00:00", "also": [" ".join(p) for p in itertools.permutations(toks)][1:]})
    # two expressions with ONE unmatched, non-blank character between them (characters the normalisation leaves in place):
    # such a gap separates candidate sequences, so nothing may be derived across it
    gap_chars = list("!?\"*&+=|~^$%_<>\\'`") + ["!?", "..", "xx", "§"]
    pairs = [("tomorrow", "5pm"), ("friday", "5pm"), ("May 5th", "8:00"), ("monday", "14:30"), ("morgen", "8 uhr"), ("9", "5"),
             ("5.3.", "2021"), ("3 days", "tomorrow"), ("8:00", "10:00")]
    shapes = ("%s%s%s", "%s %s %s", "%s%s %s", "%s %s%s")
    k = 0
    for gi, g in enumerate(gap_chars):
        for pi, (a, b) in enumerate(pairs):
            for si, f in enumerate(shapes):
                k += 1
                if tier == "thorough" or (gi + pi + si) % 9 == seed % 9 or (gi < 2 and pi < 4 and si < 2):
                    extra.append({"t": f % (a, g, b), "ts": "2021-03-10T12:43:30"})
    return cases + extra


def run_case(case, ctx):
    res = _run_text(case, ctx, case["t"])
    for t2 in case.get("also", ()):
        if res["st"] != "ok":
            break
        r2 = _run_text(case, ctx, t2)
        if r2["st"] == "viol":
            r2["msg"] = "(run right after %r in the same process) %s" % (case["t"], r2["msg"])
            return r2
    return res


def _run_text(case, ctx, text):
    L, mon = ctx["L"], ctx["mon"]
    ts = C.parse_ts(case["ts"])
    key = "%s|%s" % (text, case["ts"])
    norm = L.m._preprocess_string(text)
    try:
        cl = D.Closure(L, ts, norm)
    except D.TooBig as e:
        return {"st": "skip", "sig": "derivation-graph-over-cap", "msg": str(e), "key": key, "cls": "cap"}
    mon.events["closure_states"] += len(cl.states)
    mon.events["closure_built"] += 1
    runs = [("constant", 0, L.scorer.DummyScorer()), ("shipped", 0, None), ("shipped", 10, None), ("shipped", 1, None)]
    for s in (1, 2, 3):
        runs.append(("random%d" % s, 0, L.scorer.RandomScorer(random.Random(s))))
    runs.append(("random9", 3, L.scorer.RandomScorer(random.Random(9))))
    probs = []
    streamed_any = False
    for sname, depth, sc in runs:
        mon.begin()
        cands = []      # (object, snapshot at yield)
        try:
            for p in L.ctparse_gen(text, ts=ts, timeout=0, max_stack_depth=depth, scorer=sc, latent_time=False):
                if p is None:
                    continue
                mon.events["candidate_observed"] += 1
                # candidates yielded earlier must not have changed
                for obj, snap, prod in cands:
                    if V.full(obj) != snap:
                        probs.append(("candidate-changed-after-yield", "[%s/d%d] %s became %s" % (sname, depth, snap, V.full(obj))))
                        cands.remove((obj, snap, prod))
                cands.append((p.resolution, V.full(p.resolution), tuple(p.production)))
        except Exception as e:  # noqa (C01's subject)
            return {"st": "skip", "sig": "stream-raises:%s (C01)" % type(e).__name__, "key": key, "cls": "raises"}
        for obj, snap, prod in cands:
            if V.full(obj) != snap:
                probs.append(("candidate-changed-after-yield", "[%s/d%d] %s became %s" % (sname, depth, snap, V.full(obj))))
        for name, before, after in mon.snap_breaches:
            what = "argument-span-altered" if [b[0] if b else b for b in before] == [a[0] if a else a for a in after] else "argument-value-altered"
            probs.append((what + "/" + name, "[%s/d%d] %s changed its arguments: %s -> %s" % (sname, depth, name, before, after)))
        streamed = set()
        for obj, snap, prod in cands:
            v = snap[0]
            streamed.add(v)
            streamed_any = True
            if v not in cl.values:
                probs.append(("unsound-candidate", "[%s/d%d] streamed %s (production %s) that no derivation yields" % (sname, depth, V.show(v), list(prod))))
            else:
                try:
                    if not cl.replays(prod, v):
                        probs.append(("production-does-not-replay", "[%s/d%d] production %s does not derive %s" % (sname, depth, list(prod), V.show(v))))
                except D.TooBig:
                    mon.events["replay_skipped"] += 1
                mon.events["production_replayed"] += 1
        if depth == 0:
            missing = cl.irr_values - streamed
            if missing:
                probs.append(("incomplete", "[%s/d0] fully reduced results never streamed: %s" % (sname, [V.show(v) for v in list(missing)[:3]])))
            mon.events["completeness_checked"] += 1
        if len(probs) > 20:
            break
    # latent anchoring is a post-processing step on what the search yields: with it switched on, the values HANDED TO it
    # (observed at apply_postprocessing_rules, snapshot taken before the call) are, in order, exactly the values streamed with
    # it switched off, with the same productions and scores; and neither the argument nor an earlier candidate changes later
    # (anchoring in place would feed an already dated value back into the search, which is still running)
    if not probs and "apply_postprocessing_rules" not in mon.missing:
        for sname, depth, mk in (("constant", 0, lambda: L.scorer.DummyScorer()), ("shipped", 10, lambda: None),
                                 ("random2", 0, lambda: L.scorer.RandomScorer(random.Random(2))))[: 3 if ctx["tier"] == "thorough" else 2]:
            try:
                off = [(V.val(p.resolution), tuple(str(x) for x in p.production), repr(p.score))
                       for p in L.ctparse_gen(text, ts=ts, timeout=0, max_stack_depth=depth, scorer=mk(), latent_time=False) if p is not None]
                mon.begin()
                mon.track_post = True
                on = []
                for p in L.ctparse_gen(text, ts=ts, timeout=0, max_stack_depth=depth, scorer=mk(), latent_time=True):
                    if p is None:
                        continue
                    art, before, res = mon.post_log[-1]
                    on.append((before[0], tuple(str(x) for x in p.production), repr(p.score)))
                    mon.events["anchored_candidate_observed"] += 1
                log = list(mon.post_log)
            except Exception as e:  # noqa (C01's subject)
                return {"st": "skip", "sig": "stream-raises:%s (C01)" % type(e).__name__, "key": key, "cls": "raises"}
            finally:
                mon.track_post = False
            if on != off:
                k = next((i for i, (a, b) in enumerate(zip(on, off)) if a != b), min(len(on), len(off)))
                probs.append(("anchoring-changes-the-search", "[%s/d%d] latent on/off streams differ before anchoring at candidate %d: on %s, off %s (%d vs %d candidates)"
                              % (sname, depth, k, on[k][:2] if k < len(on) else None, off[k][:2] if k < len(off) else None, len(on), len(off))))
            for art, before, res in log:
                if V.full(art) != before:
                    probs.append(("anchoring-alters-its-argument", "[%s/d%d] the value handed to latent anchoring was %s and is now %s" % (sname, depth, before, V.full(art))))
                    break
    if probs:
        tags = sorted(set(p[0] for p in probs))
        return C.viol(tags[0], "%r at %s: %d problems %s; first: %s" % (text, case["ts"], len(probs), tags[:4], probs[0][1][:500]), key, "derive")
    return C.ok(key, "derive", nt=len(cl.states) >= 2 and streamed_any,
                obs_={"text": text, "matches": len(cl.matches), "sequences": len(cl.seqs), "initial": len(cl.initial), "states": len(cl.states),
                      "irreducible": len(cl.irreducible), "closure_values": len(cl.values), "runs": len(runs)})


def post_check(results, summaries, events, rules, tier):
    need = ("closure_built", "candidate_observed", "production_replayed", "completeness_checked", "rule_arg_snapshot", "anchored_candidate_observed")
    miss = [k for k in need if not events.get(k)]
    if miss:
        yield ("inconclusive", "events never observed: %s" % miss)


def extra_coverage(results, summaries):
    ev = {}
    for s in summaries:
        for k, v in s.get("events", {}).items():
            ev[k] = ev.get(k, 0) + v
    return {"closure_states_total": ev.get("closure_states", 0), "rule_argument_snapshots": ev.get("rule_arg_snapshot", 0)}
