"""C19 — the rule base is structurally sound and the shipped model speaks its
language.  Import-time registration log (sys.monitoring in a fresh
interpreter), per-rule firing counters, match-event monitor, registry/model
agreement."""
import ast
import json
import os
import subprocess
from datetime import datetime

from .. import env
from ..spec import grammar as G, values as V
from . import common as C

TITLE = "rule base and model"
LEVEL = "exploration"
RULE = ("one fresh-interpreter import under sys.monitoring (every rule() call and every registration is an event) checked "
        "against the registry, the syntax tree of rules.py and the shipped vocabulary; structure case (adjacent regex "
        "predicates, pattern text <-> id bijection, every pattern against '' and probe texts); every part-of-day modifier "
        "chain to depth 4 through the real rule; and a firing workload: every bundled-corpus text (exhaustive search) + "
        "grammar expressions + token soup, with per-rule firing counters and a zero-length-match monitor. non-trivial = "
        "at least one rule fired / events observed; distinct on the case id.")
ASSUMPTIONS = ["a rule of the pinned rule base that never fires on the bundled corpus (which was written to exercise each rule) "
               "has lost the ability to fire; an unknown new rule that stays silent is inconclusive, not a violation"]

PINNED_RULES = None  # filled lazily from the corpus comments is not possible; the registry at run time is the reference


def ALL_RULES():
    from ..attach import lib
    return list(lib().registry)


def gen_cases(tier, seed):
    from ..attach import lib
    lib()
    from ctparse.time.corpus import corpus
    cases = [{"k": "structure"}, {"k": "podchain", "depth": 4 if tier == "thorough" else 3}]
    i = 0
    for target, ts, tests in corpus:
        for t in tests:
            cases.append({"k": "fire", "t": t, "ts": ts, "depth": 0})
            i += 1
    r = C.rng(seed, "C19")
    for _ in range(6000 if tier == "thorough" else 1200):
        cases.append({"k": "fire", "t": G.expression(r)[1], "ts": "2021-03-10T12:43", "depth": 10})
    toks = ["8", "8", "12", "2020", "am", "pm", "uhr", "h", "mo", "mai", "märz", "5.", "3/4", "-", "bis", "an", "ein", "m", "früh", "late",
            "very", "sehr", "half", "halb", "vor", "nach", "of", "the", "1st", "20:15", "0", "00", "31.", "a", "one", "night", "#x"]
    for _ in range(1500 if tier == "thorough" else 300):
        cases.append({"k": "fire", "t": " ".join(r.choice(toks) for _ in range(r.randrange(1, 6))), "ts": "2021-03-10T12:43", "depth": 10})
    return cases


def run_special(tier, seed, workdir):
    """fresh interpreter: import-time event log vs registry / AST / vocabulary"""
    res = []
    # which name do the rule definitions use for the registration decorator, and what is it called in ctparse/rule.py?
    src = os.path.join(env.REPO, "ctparse", "time", "rules.py")
    tree = ast.parse(open(src, encoding="utf-8").read())
    imported = {}
    for node in tree.body:
        if isinstance(node, ast.ImportFrom) and (node.module or "").split(".")[-1] == "rule":
            for a in node.names:
                imported[a.asname or a.name] = a.name
    used = {}
    for node in ast.walk(tree):
        if isinstance(node, ast.FunctionDef):
            for dec in node.decorator_list:
                f = dec.func if isinstance(dec, ast.Call) else dec
                if isinstance(f, ast.Name) and f.id in imported:
                    used[f.id] = used.get(f.id, 0) + 1
    if not used:
        return [{"st": "inconc", "msg": "no definition in ctparse/time/rules.py is decorated with a name imported from the rule module: the registration function cannot be identified"}], []
    deco = set(used)
    p = subprocess.run([env.PY, "-m", "vf.tools.import_log"], cwd=env.VERIF, env=env.child_env({"VF_RULE_FN": ",".join(sorted(set(imported[d] for d in deco)))}),
                       capture_output=True, text=True, timeout=300)
    if p.returncode != 0:
        return [{"st": "inconc", "msg": "import log subprocess failed: %s" % p.stderr[-800:]}], []
    d = json.loads(p.stdout)
    ev = d["events"]
    regs = [e for e in ev if e["ev"] == "register"]
    calls = [e for e in ev if e["ev"] == "rule"]
    problems = []
    names = [e["name"] for e in regs]
    dup = sorted(set(n for n in names if names.count(n) > 1))
    if dup:
        problems.append(("duplicate-rule-name", "rule names registered more than once (a later definition silently replaces an earlier one): %s" % dup))
    if set(names) != set(d["registry"]):
        problems.append(("registry-differs-from-log", "registry and registration log differ: %s" % sorted(set(names) ^ set(d["registry"]))))
    if len(calls) != len(regs):
        problems.append(("rule-call-without-registration", "%d rule() calls but %d registrations" % (len(calls), len(regs))))
    # syntax tree: definitions decorated with the registration decorator in the rule module (cross-check of count and names)
    defs = []
    for node in ast.walk(tree):
        if isinstance(node, ast.FunctionDef):
            for dec in node.decorator_list:
                f = dec.func if isinstance(dec, ast.Call) else dec
                if isinstance(f, ast.Name) and f.id in deco:
                    defs.append(node.name)
    in_rules_py = [e["name"] for e in regs if e["file"] == os.path.join("ctparse", "time", "rules.py")]
    if sorted(defs) != sorted(in_rules_py):
        problems.append(("definitions-differ-from-log", "definitions in rules.py %d vs registrations from it %d: %s" % (
            len(defs), len(in_rules_py), sorted(set(defs) ^ set(in_rules_py)) or "same names, different multiplicity")))
    if len(set(defs)) != len(defs):
        problems.append(("duplicate-rule-name", "rules.py defines %s more than once" % sorted(set(n for n in defs if defs.count(n) > 1))))
    missing = [n for n in set(defs) if n not in d["registry"]]
    if missing:
        problems.append(("defined-but-not-registered", "%s" % missing))
    # identical pattern text shares one identifier; ids are consecutive from 100
    strs = [p for e in calls for p in e["patterns"] if not p.startswith("<")]
    if len(set(strs)) != len(d["regex_ids"]):
        problems.append(("pattern-id-not-bijective", "%d distinct pattern texts but %d identifiers" % (len(set(strs)), len(d["regex_ids"]))))
    if {v: k for k, v in d["str_regex"].items()} != {int(k): v for k, v in d["regex_str"].items()}:
        problems.append(("pattern-id-not-bijective", "text->id and id->text tables are not inverse"))
    # vocabulary
    if d["vocab_unigrams"] is None:
        res.append({"st": "inconc", "msg": "default scorer is %s: shipped model not loaded" % d["scorer"]})
    else:
        known = set(str(i) for i in d["regex_ids"]) | set(d["registry"])
        unk = [t for t in d["vocab_unigrams"] if t not in known]
        if unk:
            problems.append(("vocabulary-names-unknown-token", "shipped vocabulary tokens that name no pattern id or rule: %s" % unk[:12]))
    obs = {"rule_calls": len(calls), "registrations": len(regs), "registry": len(d["registry"]), "ast_definitions": len(defs),
           "pattern_ids": len(d["regex_ids"]), "vocab_unigrams": len(d["vocab_unigrams"] or [])}
    for sig, msg in problems:
        res.append({"st": "viol", "sig": "import/" + sig, "msg": msg, "key": "import/" + sig, "cls": "import", "nt": True, "case": {"k": "import"}})
    if not problems:
        res.append({"st": "ok", "key": "import", "cls": "import", "nt": True, "obs": obs, "case": {"k": "import-log"}})
    return res, [{"_summary": True, "events": {"import_rule_call": len(calls), "import_registration": len(regs)}, "rules_fired": {}, "extra": {}}]


def run_case(case, ctx):
    L, mon = ctx["L"], ctx["mon"]
    k = case["k"]
    if k == "structure":
        probs = []
        R = L.rule
        for name, (fn, pats) in L.registry.items():
            for a, b in zip(pats[:-1], pats[1:]):
                if a.__name__ == "_regex_match" and b.__name__ == "_regex_match":
                    probs.append(("adjacent-regex-predicates", name))
            mon.events["rule_pattern_list_checked"] += 1
        probes = ["", " ", "x", "12", "a b", "5. mai 2020 um 8 uhr", "early late very früh", "halb acht - 9 pm", "0", "...", "-", "am"]
        from ctparse.time.corpus import corpus
        for target, ts, tests in corpus[::3]:
            probes += tests[:1]
        # every word that occurs in any pattern text, alone and inside other words (look-arounds and \b only show there)
        import re as _re
        words = sorted(set(w.lower() for txt in R._regex_str.values() for w in _re.findall(r"[A-Za-zäöüß]{2,}", txt)))
        probes += words + ["we met 3 days %s in chic%s" % (w, w) for w in words] + ["x%sx %s" % (w, w) for w in words[::3]]
        for rid, rr in R._regex.items():
            key = "R%d" % rid
            for t in probes:
                for m in rr.finditer(t, overlapped=True):
                    mon.events["pattern_probe_match"] += 1
                    s, e = m.span(key)
                    if e <= s:
                        probs.append(("pattern-matches-empty", "pattern %d (%r) gives a zero-length match in %r" % (rid, R._regex_str.get(rid), t)))
                        break
            if rr.match("") or rr.search(""):
                probs.append(("pattern-matches-empty", "pattern %d matches the empty string" % rid))
        if {v: k_ for k_, v in R._str_regex.items()} != dict(R._regex_str):
            probs.append(("pattern-id-not-bijective", "tables not inverse"))
        # fault injection at the registration function: a rule it must reject (pattern that matches '', two adjacent
        # patterns) is rejected AND leaves the rule base exactly as it was
        snap = (dict(R._regex_str), dict(R._str_regex), sorted(R._regex), list(R.rules), R._regex_cnt)

        def restore():
            R._regex_str.clear(); R._regex_str.update(snap[0]); R._str_regex.clear(); R._str_regex.update(snap[1])
            for k_ in list(R._regex):
                if k_ not in snap[2]:
                    del R._regex[k_]
            for k_ in list(R.rules):
                if k_ not in snap[3]:
                    del R.rules[k_]
            R._regex_cnt = snap[4]

        # ... and sound rules it must accept: the SAME pattern text used by two new rules (and a shipped text used by a
        # new rule) gets ONE identifier, whatever characters the text contains; the text <-> id tables stay inverse
        shipped_upper = sorted(t for t in snap[1] if t != t.lower())[:2] + sorted(t for t in snap[1] if t == t.lower())[:1]
        fresh = [r"zzqd\d+", r"(?P<zzqe>ZZQE\D+)", r"Zzqf\S+x", r"zzqg\D+", r"zzqg\d+", r"\bZZQH\b"]
        for ti, text in enumerate(fresh + shipped_upper):
            ids = []
            for rep in range(2):
                mon.events["accepted_registration_attempt"] += 1

                def probe_rule(ts, *a):
                    return None
                probe_rule.__name__ = "ruleVfProbe%d_%d" % (ti, rep)
                try:
                    R.rule(text, R.dimension(L.Time))(probe_rule)
                except Exception as e:  # noqa
                    probs.append(("registration-raises-unexpectedly", "rule(%r, Time): %s: %s" % (text, type(e).__name__, e)))
                    break
                i = R._str_regex.get(text)
                if i is None or R._regex_str.get(i) != text:
                    probs.append(("pattern-text-id-tables-inconsistent", "after rule(%r, ...): text -> %r -> %r" % (text, i, R._regex_str.get(i))))
                    break
                ids.append(i)
            if len(set(ids)) > 1:
                probs.append(("same-pattern-text-two-identifiers", "pattern text %r registered twice got the identifiers %s" % (text, ids)))
            if text in snap[1] and ids and ids[0] != snap[1][text]:
                probs.append(("same-pattern-text-two-identifiers", "shipped pattern text %r (id %s) re-used by a new rule got %s" % (text, snap[1][text], ids)))
            if {v: k_ for k_, v in R._str_regex.items()} != dict(R._regex_str):
                probs.append(("pattern-id-not-bijective", "tables not inverse after registering %r" % text))
        restore()
        for bi, bad in enumerate(((r"(zzqq|zzqw)?\s*", R.dimension(L.Time)), (r"(?=zzqq)", R.dimension(L.Time)), ("zzqa", "zzqb"), (R.dimension(L.Time), r"(zzqc)*"))):
            mon.events["rejected_registration_attempt"] += 1
            try:
                R.rule(*bad)(lambda ts, *a: None)
                accepted = True
            except ValueError:
                accepted = False
            except Exception as e:  # noqa
                accepted = False
                probs.append(("registration-raises-unexpectedly", "%s: %s" % (type(e).__name__, e)))
            now = (dict(R._regex_str), dict(R._str_regex), sorted(R._regex), list(R.rules), R._regex_cnt)
            if accepted and bi != 1:
                probs.append(("unsound-rule-accepted", "rule(%r) was accepted" % (bad,)))
            if now != snap:
                if accepted:
                    # (a look-ahead-only pattern does not match '' and may be accepted: undo it)
                    pass
                else:
                    probs.append(("rejected-registration-left-traces", "after the rejected rule(%r) the tables differ: ids %s -> %s" % (bad, snap[2][-2:], now[2][-2:])))
                # restore, so that the rest of this worker sees the shipped rule base
                restore()
        if probs:
            return C.viol("structure/" + probs[0][0], "%d problems: %s" % (len(probs), probs[:4]), "structure", "structure")
        return C.ok("structure", "structure", nt=True, obs_={"rules": len(L.registry), "patterns": len(R._regex), "probe_texts": len(probes)})
    if k == "podchain":
        return _podchain(case, ctx)
    ts = datetime.strptime(case["ts"], "%Y-%m-%dT%H:%M")
    mon.begin()
    mon.zero_length[:] = []
    bad_pod = []
    n = 0
    for p in L.ctparse_gen(case["t"], ts=ts, timeout=0, max_stack_depth=case["depth"], latent_time=False):
        if p is None or p.resolution is None:
            continue
        n += 1
        v = V.val(p.resolution)
        for t in ([v] if v[0] == "T" else [x for x in v[1:] if x] if v[0] == "I" else []):
            if t[7] is not None and t[7] not in L.pod_hours:
                bad_pod.append(t[7])
    key = "fire|%s|%s" % (case["t"], case["depth"])
    if mon.zero_length:
        return C.viol("zero-length-match", "pattern %s gave a zero-length match at %s in %r" % mon.zero_length[0], key, "fire")
    if bad_pod:
        return C.viol("unknown-part-of-day", "%r streams the part of day %r that the table does not know" % (case["t"], bad_pod[0]), key, "fire")
    return C.ok(key, "fire", nt=bool(mon.case_rules), obs_={"text": case["t"], "candidates": n, "rules": sorted(mon.case_rules)[:8]})


def _podchain(case, ctx):
    L, mon = ctx["L"], ctx["mon"]
    ts = datetime(2021, 3, 10, 12, 43)
    reg = L.registry
    fn, pats = reg["ruleEarlyLatePOD"]
    # the pattern id of the modifier regex is the closure variable of the first predicate
    rid = None
    for cell in (pats[0].__closure__ or ()):
        if isinstance(cell.cell_contents, int):
            rid = cell.cell_contents
    if rid is None:
        return {"st": "inconc", "msg": "cannot find the modifier pattern id of ruleEarlyLatePOD"}
    rr = L.rule._regex[rid]
    mods = {}
    for txt in ["early", "late", "very early", "very late", "früh", "spät", "sehr früh", "sehr spät", "früher", "späten"]:
        m = rr.fullmatch(txt) or rr.match(txt)
        if m:
            mods[txt] = L.RegexMatch(rid, m)
    if len(mods) < 4:
        return {"st": "inconc", "msg": "modifier words no longer match the modifier pattern: %s" % sorted(mods)}
    # base parts of day: what rulePOD really produces for each word of the grammar table
    base = set()
    for w, pod in G.POD_FORMS.items():
        r = L.ctparse(w, ts=ts, timeout=0, latent_time=False)
        v = C.resv(r)
        if v and v[0] == "T" and v[7]:
            base.add(v[7])
    frontier = set(base)
    seen = set(base)
    unknown = []
    raised = []
    n = 0
    for depth in range(case["depth"]):
        nxt = set()
        for pod in sorted(frontier):
            for txt, rm in mods.items():
                n += 1
                mon.events["pod_chain_application"] += 1
                try:
                    res = fn(ts, rm, L.Time(POD=pod))
                except Exception as e:  # noqa
                    raised.append("%s(%r + %r): %s: %s" % ("ruleEarlyLatePOD", txt, pod, type(e).__name__, e))
                    continue
                if res is None:
                    continue
                newp = res.POD
                if newp not in L.pod_hours:
                    unknown.append("%r + %r -> %r" % (txt, pod, newp))
                    continue
                try:
                    res.start, res.end
                except Exception as e:  # noqa
                    raised.append("start/end of %r: %s" % (newp, e))
                if newp not in seen:
                    seen.add(newp)
                    nxt.add(newp)
        frontier = nxt
    for p in seen:
        if p not in L.pod_hours:
            unknown.append(p)
    if unknown or raised:
        return C.viol("podchain/" + ("unknown-part-of-day" if unknown else "raises"), "%d unknown, %d raised; e.g. %s" % (len(unknown), len(raised), (unknown + raised)[:3]), "podchain", "podchain")
    return C.ok("podchain", "podchain", nt=True, obs_={"base": sorted(base), "modifiers": sorted(mods), "applications": n, "distinct_parts_of_day": len(seen)})


def post_check(results, summaries, events, rules, tier):
    from ..attach import lib
    L = lib()
    silent = [n for n in L.registry if not rules.get(n)]
    if silent:
        yield ("violation", "rules that never fired on the bundled corpus + grammar workload (cannot fire any more): %s" % silent)
    if not events.get("import_registration"):
        yield ("inconclusive", "import-time registration log is empty")
    if not events.get("regex_match") or not events.get("pod_chain_application") or not events.get("pattern_probe_match"):
        yield ("inconclusive", "too few events: %s" % {k: events.get(k) for k in ("regex_match", "pod_chain_application", "pattern_probe_match")})
