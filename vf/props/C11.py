"""C11 — separators, brackets, dash variants and letter case never change the
result.  Function-level wrapper over every assigned code point (exhaustive) +
paired executions at the API (metamorphic)."""
import sys
import unicodedata
from datetime import datetime

from ..spec import values as V
from . import common as C

TITLE = "separators, dashes, case"
LEVEL = "exploration"
EXHAUSTIVE = {"quick": True, "thorough": True}
RULE = ("function level (exhaustive, both tiers): every assigned code point c as a single separator in 'a'+c+'b' -> 'a b' / "
        "'a-b' / unchanged by its Unicode category, plus idempotence and leading/trailing position; random runs of separator "
        "characters. API level: every bundled-corpus expression and grammar expression under separator substitution, "
        "bracket wrapping, dash variants and upper/lower/title case must give the resolution of the plain text (paired "
        "executions). non-trivial = the plain text resolves and the variant differs from it as a string; distinct on "
        "(variant text, reference time) or on the code-point block.")
ASSUMPTIONS = ["Unicode categories from Python's unicodedata (%s); a code point on which it and the regex module's own tables "
               "disagree is counted excluded, not a violation" % unicodedata.unidata_version,
               "configuration D (timeout=0)"]

BLOCK = 4096
SEP_CATS = ("Zs", "Zl", "Zp", "Cc", "Cf", "Co", "Cs", "Ps", "Pe")
DASHES = [chr(c) for c in range(0x2010, 0x2016)] + ["⁃"]


def expected_single(c):
    cat = unicodedata.category(c)
    if c in ",;" or cat in SEP_CATS:
        return "a b"
    if cat == "Pd" or c in DASHES:
        return "a-b"
    return "a" + c + "b"


def _sep_pool():
    pool = [" ", "  ", "\t", "\n", ",", ";", ", ", "; ", " ", " ", "​", " ", "\x00", "\x1f", "(", ")", "[", "]", "{", "}",
            "〈", "〉", "﻿", " ( ", ") ", "\u0085"]
    return pool


def gen_cases(tier, seed):
    cases = []
    for lo in range(0, sys.maxunicode + 1, BLOCK):
        cases.append({"k": "cp", "lo": lo, "hi": min(sys.maxunicode + 1, lo + BLOCK)})
    for i in range(200 if tier == "thorough" else 40):
        cases.append({"k": "runs", "i": i})
    # API level: bundled corpus expressions
    from ..attach import lib
    lib()
    from ctparse.time.corpus import corpus
    exprs = []
    for target, ts, tests in corpus:
        for t in tests:
            exprs.append((t, ts))
    r = C.rng(seed, "C11")
    from ..spec import grammar as G
    extra = ["tomorrow at 5pm", "next friday 8:30", "12.05.2021 - 14.05.2021", "from 8:00 to 10:00", "the 5th of march 2021 at 3 o'clock",
             "morgen um 14 Uhr", "am 5. märz 2021", "dreißig tage", "übermorgen früh", "between 9 and 5", "3 days 15.11.2021 - 18.11.2021"]
    exprs += [(t, "2021-03-10T12:43") for t in extra]
    for _ in range(4000 if tier == "thorough" else 500):
        exprs.append((G.expression(r)[1], r.choice(["2021-03-10T12:43", "2024-02-29T23:59", "2019-12-31T00:00"])))
    # texts of the coverage-guided corpus (unusual rule combinations; vf/tools/covsoup.py)
    from . import streams as S
    cov = [(e["t"], e["ts"][:16]) for e in S.cov_entries() if "#" not in e["t"]]
    exprs += cov if tier == "thorough" else r.sample(cov, min(len(cov), 150))
    # a word broken after a hyphen: whatever separator follows the hyphen, the two halves stay two tokens
    exprs += [(t, "2021-03-10T12:43") for t in ("termin über- morgen 15 uhr", "to- morrow 5pm", "after- noon 3 o'clock", "mon- fri 9-5", "heute nach- mittag",
                                                 "vor- gestern", "wochen- ende am freitag 8 uhr", "über- übermorgen um 9")]
    # clock notations with letters (am/pm, uhr, h, o'clock), named hours, months, weekdays: the places where case could matter
    for cn, (fn, fl) in G.CLOCK.items():
        for h in (0, 1, 9, 11, 12, 13, 23):
            for mi in (0, 30, 7, 37):
                t = fn(h, mi)
                if t and any(ch.isalpha() for ch in t) and not (fl.get("exclude") and fl["exclude"](h, mi)):
                    exprs.append((t, "2021-03-10T12:43"))
                    exprs.append(("tomorrow at " + t, "2021-03-10T12:43"))
    for w in G.HOUR_EN + G.HOUR_DE + G.MIDNIGHT + G.MONTH_EN + G.MONTH_DE + G.DOW_FULL_EN + G.DOW_FULL_DE + list(G.POD_FORMS)[:30]:
        exprs.append((w, "2021-03-10T12:43"))
    variants = ["upper", "lower", "title", "seps", "brackets", "dashes", "lead-trail", "mixed", "swapcase"]
    per = len(variants) if tier == "thorough" else 3
    for i, (t, ts) in enumerate(exprs):
        letters = any(ch.isalpha() for ch in t)
        vs = variants if tier == "thorough" else (r.sample(variants, per) if i < len(corpus) * 4 else ["upper", "title", "swapcase", "seps"])
        for v in vs:
            if v in ("upper", "lower", "title", "swapcase") and not letters:
                continue
            for rep in range(3 if (tier == "thorough" and v in ("seps", "mixed")) else 1):
                cases.append({"k": "api", "t": t, "ts": ts, "v": v, "rep": rep})
    return cases


def _variant(r, t, v):
    pool = _sep_pool()
    if v == "upper":
        return t.upper()
    if v == "lower":
        return t.lower()
    if v == "title":
        return t.title()
    if v == "swapcase":
        return t.title().swapcase()
    if v == "seps":
        return "".join((r.choice(pool) + (r.choice(pool) if r.random() < 0.3 else "")) if ch == " " else ch for ch in t)
    if v == "brackets":
        o, c = r.choice([("(", ")"), ("[", "]"), ("{", "}"), ("〈", "〉"), ("（", "）")])
        return o + t + c
    if v == "dashes":
        return "".join(r.choice(DASHES + ["−" if False else "-", "⸺", "﹘", "－", "--", "––"]) if ch == "-" else ch for ch in t)
    if v == "lead-trail":
        return r.choice(pool) + r.choice(pool) + t + r.choice(pool)
    t2 = _variant(r, t, "seps")
    t2 = _variant(r, t2, "dashes")
    return _variant(r, t2, r.choice(["upper", "lower", "lead-trail"]))


def run_case(case, ctx):
    L, mon = ctx["L"], ctx["mon"]
    norm = L.m._preprocess_string
    k = case["k"]
    if k == "cp":
        import regex
        bad = []
        n = excl = 0
        for cp in range(case["lo"], case["hi"]):
            c = chr(cp)
            cat = unicodedata.category(c)
            if cat == "Cn":
                continue
            n += 1
            mon.events["codepoint_checked"] += 1
            exp = expected_single(c)
            got = norm("a" + c + "b")
            if got != exp:
                # does the regex module's own Unicode table put it in another category?
                rx_sep = bool(regex.fullmatch(r"[,;\pZ\pC\p{Ps}\p{Pe}]", c))
                rx_dash = bool(regex.fullmatch(r"\p{Pd}|[‐-―]|⁃", c))
                py_sep = exp == "a b"
                py_dash = exp == "a-b"
                if (rx_sep, rx_dash) != (py_sep, py_dash) and got == ("a b" if rx_sep else "a-b" if rx_dash else "a" + c + "b"):
                    excl += 1
                    mon.events["unicode_version_disagreement"] += 1
                    continue
                bad.append("U+%04X (%s): %r, expected %r" % (cp, cat, got, exp))
                continue
            # the same code point in other surroundings: after a hyphen that ends a word ('über-<c>morgen': a line
            # break there is a separator like any other), between digits, between capitals
            kind = "sep" if exp == "a b" else "dash" if exp == "a-b" else "other"
            for pre, post in (("x-", "y"), ("1", "2"), ("A", "B"), ("ü-", "m")):
                want = pre + {"sep": " ", "dash": "-", "other": c}[kind] + post if not (kind == "dash" and pre.endswith("-")) else pre + post
                g2 = norm(pre + c + post)
                if g2 != want:
                    bad.append("U+%04X (%s) between %r and %r: %r, expected %r" % (cp, cat, pre, post, g2, want))
                    break
            # idempotence and position
            if norm(got) != got:
                bad.append("U+%04X: not idempotent" % cp)
            if exp == "a b" and (norm(c + "a b" + c) != "a b" or norm("a" + c + c + " " + c + "b") != "a b"):
                bad.append("U+%04X: leading/trailing or repeated separator not ignored: %r" % (cp, norm(c + "a b" + c)))
            if exp == "a-b" and norm("a" + c + c + "b") != "a-b":
                bad.append("U+%04X: dash run not collapsed" % cp)
        key = "cp/%06X" % case["lo"]
        if bad:
            return C.viol("codepoint/" + ("separator" if "expected 'a b'" in bad[0] else "dash" if "expected 'a-b'" in bad[0] else "other"),
                          "%d code points wrong in block U+%04X..; first: %s" % (len(bad), case["lo"], "; ".join(bad[:4])), key, "cp")
        if n == 0:
            return {"st": "skip", "sig": "block-without-assigned-code-points", "key": key, "cls": "cp"}
        return C.ok(key, "cp", nt=True, obs_={"block": "U+%04X..U+%04X" % (case["lo"], case["hi"] - 1), "assigned": n, "excluded": excl})
    if k == "runs":
        r = C.rng(ctx["seed"], "C11r", case["i"])
        seps = [chr(cp) for cp in (0x20, 0x9, 0xA, 0xD, 0xA0, 0x1680, 0x2000, 0x2009, 0x200B, 0x2028, 0x2029, 0x202F, 0x3000, 0x0, 0x7F, 0x85,
                                   0xAD, 0x200E, 0xFEFF, 0x28, 0x29, 0x5B, 0x5D, 0x7B, 0x7D, 0xF3A, 0x2045, 0x3008, 0x3009, 0xFF08, 0x2C, 0x3B)]
        bad = []
        for _ in range(200):
            run1 = "".join(r.choice(seps) for _ in range(r.randrange(1, 9)))
            run2 = "".join(r.choice(seps) for _ in range(r.randrange(0, 5)))
            dash = "".join(r.choice(DASHES + ["-"]) for _ in range(r.randrange(1, 4)))
            mon.events["run_checked"] += 1
            g = norm(run2 + "x" + run1 + "y" + dash + "z" + run2)
            if g != "x y-z":
                bad.append("%r -> %r" % (run2 + "x" + run1 + "y" + dash + "z" + run2, g))
            g2 = norm("p" + run1 + dash + run1 + "q")
            if g2 != "p - q":
                bad.append("%r -> %r" % ("p" + run1 + dash + run1 + "q", g2))
        key = "runs/%d" % case["i"]
        if bad:
            return C.viol("runs", "%d wrong; first: %s" % (len(bad), bad[0]), key, "runs")
        return C.ok(key, "runs", nt=True, obs_={"runs": 400})
    # API level
    r = C.rng(ctx["seed"], "C11a", case["t"], case["v"], case["rep"])
    ts = datetime.strptime(case["ts"], "%Y-%m-%dT%H:%M")
    base = case["t"]
    var = _variant(r, base, case["v"])
    key = "api|%s|%s" % (var, case["ts"])
    cls = "api/" + case["v"]
    r0 = C.api(ctx, base, ts)
    v0 = C.resv(r0)
    r1 = C.api(ctx, var, ts)
    v1 = C.resv(r1)
    mon.events["pair_compared"] += 1
    if v0 == v1:
        return C.ok(key, cls, nt=(v0 is not None and var != base), obs_={"plain": base, "variant": var, "resolution": V.show(v0)})
    return C.viol("api/" + case["v"], "plain %r -> %s, variant %r -> %s (normalised %r vs %r)" % (base, V.show(v0), var, V.show(v1), norm(base), norm(var)), key, cls)


def post_check(results, summaries, events, rules, tier):
    if events.get("codepoint_checked", 0) < 100000:
        yield ("inconclusive", "only %s code points were checked" % events.get("codepoint_checked"))
    if not events.get("pair_compared") or not events.get("run_checked"):
        yield ("inconclusive", "no paired execution / run observed")
