"""shared case generation / execution for the properties that observe whole
candidate streams over the C01 generators (C01, C02, C14)"""
from ..gen import texts as T
from . import common as C


def gen(tier, seed, salt, n_quick, n_thorough, fixed=True):
    from ..attach import lib
    lib()
    r = C.rng(seed, salt)
    pools = {"corpus": T.corpus_texts() + T.dataset_texts(400)}
    cases = []
    if fixed:
        for t in T.IMPOSSIBLE + T.MODIFIER_STACKS + T.TRIVIAL + T.POD_EDGE + T.MONTH_END_RANGES + T.POD_RANGES + T.SAME_HOUR_PAIRS + T.DOUBLED:
            for lat in (True, False):
                cases.append({"g": "G1/fixed", "t": t, "ts": "2021-03-10T12:43:30", "o": {"latent_time": lat, "max_stack_depth": 10,
                                                                                         "relative_match_len": 1.0, "scorer": "shipped", "debug": False}})
            cases.append({"g": "G1/fixed", "t": t, "ts": "2020-02-29T23:59:59.999999", "o": {"latent_time": True, "max_stack_depth": 0,
                                                                                              "relative_match_len": 0.5, "scorer": "constant", "debug": False}})
        # weekday + day of month: the rule scans forward for the next date with both; days 29-31 make the scan long
        k = 0
        for y in range(2020, 2032):
            for mth in range(1, 13):
                for wd in ("monday", "tuesday", "mittwoch", "thursday", "freitag", "saturday", "sonntag"):
                    k += 1
                    if tier != "thorough" and k % 2:
                        continue
                    dd = (31, 31, 31, 30, 31, 29)[k % 6]
                    t = ["%s %dth" % (wd, dd) if dd != 31 else "%s 31st" % wd, "%s der %d." % (wd, dd), "%s %d." % (wd, dd)][k % 3]
                    cases.append({"g": "G1/weekday+day-of-month", "t": t, "ts": "%04d-%02d-15T09:30:00" % (y, mth),
                                  "o": {"latent_time": True, "max_stack_depth": 10, "relative_match_len": 1.0, "scorer": "shipped", "debug": False}})
    if fixed:
        # ... and the reference day itself being that weekday and day of month, at reference times with and without a
        # sub-second part (the scan starts at the reference time)
        from datetime import date
        wds = ("monday", "dienstag", "wednesday", "donnerstag", "friday", "samstag", "sunday")
        k = 0
        for y in range(2020, 2032):
            for mth in range(1, 13):
                k += 1
                if tier != "thorough" and k % 2:
                    continue
                d = date(y, mth, (k * 11) % 28 + 1)
                wd = wds[d.weekday()]
                t = ["%s %dth" % (wd, d.day) if d.day not in (1, 2, 3, 21, 22, 23) else "%s the %d." % (wd, d.day), "%s der %d." % (wd, d.day), "%s %d." % (wd, d.day)][k % 3]
                for tod in ("00:00:00", "09:30:15.250000", "23:59:59.999999"):
                    cases.append({"g": "G1/weekday+day-of-month/today", "t": t, "ts": "%sT%s" % (d.isoformat(), tod),
                                  "o": {"latent_time": True, "max_stack_depth": 10, "relative_match_len": 1.0, "scorer": "shipped", "debug": False}})
    if fixed:
        # long chains of fully written date-times: one production of 30-100 rule applications, so that the scorer's class
        # log-likelihoods leave the range in which exp() is representable (scores must stay finite, the parse total)
        wd = ["monday", "tuesday", "wednesday", "thursday", "friday", "saturday", "sunday"]
        for n_groups in ((3, 4, 5, 6, 7, 8) if tier == "thorough" else (4, 6, 8)):
            for style in (0, 1):
                grp = []
                for i in range(n_groups):
                    if style == 0:
                        grp.append("%s %dth september 2022 %d:30" % (wd[i % 7], 5 + i, 10 + i))      # 5.9.2022 is a monday
                    else:
                        grp.append("%s %d.9.2022 %d:30" % (wd[i % 7][:3], 5 + i, 10 + i))
                for lat in (True, False):
                    cases.append({"g": "G1/long-chain", "t": " ".join(grp), "ts": "2021-03-10T12:43:30",
                                  "o": {"latent_time": lat, "max_stack_depth": 10, "relative_match_len": 1.0, "scorer": "shipped", "debug": False}})
    # coverage-guided corpus (vf/tools/covsoup.py): texts that each showed a rule-application signature no other kept text
    # shows; an input list only -- the monitors of the property decide on the current tree
    cov = cov_entries()
    if tier != "thorough":
        cov = r.sample(cov, min(len(cov), 400))
    for i, e in enumerate(cov):
        o = {"latent_time": True, "max_stack_depth": 10, "relative_match_len": 1.0, "scorer": "shipped", "debug": False}
        cases.append({"g": "G4/coverage-corpus", "t": e["t"], "ts": e["ts"], "o": o})
        if tier == "thorough" or i % 3 == 0:
            cases.append({"g": "G4/coverage-corpus", "t": e["t"], "ts": e["ts"], "o": dict(o, latent_time=False)})
        if tier == "thorough":
            cases.append({"g": "G4/coverage-corpus", "t": e["t"], "ts": T.ref_time(r), "o": T.options(r), "s": r.randrange(1 << 30)})
    n = n_thorough if tier == "thorough" else n_quick
    for i in range(n):
        g, t = T.text_case(r, pools)
        cases.append({"g": g, "t": t, "ts": T.ref_time(r), "o": T.options(r), "s": r.randrange(1 << 30)})
    return cases


def cov_entries():
    import json
    import os
    p = os.path.join(os.path.dirname(os.path.dirname(os.path.abspath(__file__))), "gen", "cov_corpus.json")
    try:
        with open(p, encoding="utf-8") as fd:
            return json.load(fd)["entries"]
    except OSError:
        return []


def opts(case, L, timeout=0):
    o = dict(case["o"])
    dbg = o.pop("debug", False)
    o["scorer"] = T.make_scorer(L, o["scorer"], case.get("s", 0))
    o["timeout"] = timeout
    return o, dbg
