"""C13 — timeout honoured: bounded work between deadline checks, clean partial
results.  A virtual clock (one tick per read) replaces the timer, so the
deadline can be placed between any two consecutive clock reads of a run; every
deadline check, pre-filter analysis, rule application, scoring and yield is an
event in one ordered trace."""
import json
from datetime import datetime

from ..spec import values as V
from . import common as C

TITLE = "timeout"
LEVEL = "fault_enumeration"
RULE = ("case = (input text, expiry point k): the virtual clock advances one tick per clock read AND per unit of work "
        "(analysis, rule application, scoring), and timeout = k - 0.5 puts the expiry between ticks k-1 and k; EVERY k up to the number of reads of the unlimited run is enumerated for small "
        "inputs (<= 700 reads), stratified k (all k <= 60, then every 7th/37th, plus the last 20) for larger ones, incl. n "
        "repeated ambiguous tokens (3^n candidate sequences). Oracles on the ordered event trace: never raises; yields are "
        "a prefix of the unlimited run's; ctparse() returns the best of that prefix or an empty result; a deadline check "
        "called after the expiry must raise (it may not return); no work event after "
        "the deadline check that raised; between two consecutive checks <= 1 pre-filter analysis, <= 1 partial parse "
        "expanded or emitted (identity of the object apply_rule / score_final is called on) and <= |rules| x |matches| "
        "applications and scorings (+|matches| final scorings); timeout=0 never reads the clock in a check. "
        "non-trivial = the deadline really fired inside the run; distinct on (text, k).")
ASSUMPTIONS = ["the deadline closure is the library's own (ctparse.timers.timeout); only the clock it reads is virtual",
               "shipped (deterministic) scorer, so the unlimited run is a valid reference for the prefix oracle"]

TEXTS = ["tomorrow 8pm", "heute", "8 8", "8 8 8", "8 8 8 8", "am 5. märz 2021 um 8 uhr", "monday 9-5", "12.05.2021 - 14.05.2021", "gargelbabel", "",
         "#tag tomorrow", "3 days 15.11.2021 - 18.11.2021", "von 8 uhr bis 10 uhr", "next friday", "quarter to 5", "31.12. 23:59", "mo di mi", "1 2 3",
         "the 5th of march at 3 o'clock", "zzz tomorrow zzz"]
BIG = ["8 8 8 8 8", "8 8 8 8 8 8", "tomorrow 8 yesterday Sep 9 9 12 2023 1923", "1 2 3 4 5 6", "mo di mi do fr sa so", "5.5. 5.5. 5.5. 5.5."]
TS = datetime(2021, 3, 10, 12, 43, 30)


class Trace:
    def __init__(self, scale=1.0):
        self.scale = scale       # seconds per tick: the deadlines handed to the library are ticks * scale
        self.ev = []
        self.now = 0
        self.keep = []   # keeps observed objects alive so that ids stay unique within a run
        self.start = 0
        self.timeout = 0

    def read(self):
        v = self.now
        self.now += 1
        self.ev.append(("read", v))
        return float(v) * self.scale

    def work(self, kind, x):
        """virtual time also passes with work (one tick per analysis / application / scoring), so a deadline can expire
        between two clock reads even if the code under test reads the clock rarely"""
        self.now += 1
        self.ev.append((kind, x))


def setup_worker(ctx):
    L, mon = ctx["L"], ctx["mon"]
    mon.step_budget = 0          # the library's own deadline is under test: no foreign budget
    mon.rule_budget = 0
    st = ctx["c13"] = {"trace": None}
    # the attach points this check cannot do without; when a refactoring removed or renamed one, every case is inconclusive
    # (with the name spelled out) instead of judging the library by a clock it does not read
    gone = [n for n, ok in (("ctparse.timers.perf_counter", hasattr(L.timers, "perf_counter")), ("ctparse.ctparse.timeout_", hasattr(L.m, "timeout_")),
                            ("PartialParse._filter_rules", hasattr(L.pp.PartialParse, "_filter_rules")), ("PartialParse.apply_rule", hasattr(L.pp.PartialParse, "apply_rule")))
            if not ok]
    if gone:
        st["broken"] = "attach point(s) %s no longer exist: the virtual clock / the work counters cannot be attached" % gone
        return
    # clock
    L.timers.perf_counter = lambda: (st["trace"].read() if st["trace"] is not None else 0.0)
    # deadline checks (on top of the monitor's wrapper)
    inner_factory = L.m.timeout_

    def timeout_(t):
        f = inner_factory(t)
        tr0 = st["trace"]
        if tr0 is not None:
            tr0.start = tr0.now - 1      # the value the factory has just read
            tr0.timeout = t / tr0.scale  # in ticks

        def t_fun():
            tr = st["trace"]
            before = tr.now if tr is not None else None
            try:
                f()
            except BaseException as e:
                if tr is not None:
                    tr.ev.append(("check", "raise:" + type(e).__name__, before))
                raise
            if tr is not None:
                tr.ev.append(("check", "ok", before))

        return t_fun

    L.m.timeout_ = timeout_
    # pre-filter analysis
    PP = L.pp.PartialParse
    orig_filter = PP._filter_rules

    def _filter_rules(self, rules):
        if st["trace"] is not None:
            st["trace"].work("analysis", len(self.prod))
        return orig_filter(self, rules)

    PP._filter_rules = _filter_rules
    # expansion of one partial parse = the apply_rule calls on one PartialParse object
    orig_apply = PP.apply_rule

    def apply_rule(self, *a, **k):
        tr = st["trace"]
        if tr is not None:
            tr.keep.append(self)
            tr.ev.append(("expand", id(self)))
        return orig_apply(self, *a, **k)

    PP.apply_rule = apply_rule
    # rule applications
    reg = L.registry
    for name, (fn, pats) in list(reg.items()):
        def wrapped(ts, *args, _fn=fn, _name=name):
            if st["trace"] is not None:
                st["trace"].work("apply", _name)
            return _fn(ts, *args)
        wrapped.__name__ = getattr(fn, "__name__", name)
        reg[name] = (wrapped, pats)
    inner = L.m._DEFAULT_SCORER

    class Recording(L.scorer.Scorer):
        def score(self, txt, ts_, pp):
            if st["trace"] is not None:
                st["trace"].work("score", "partial")
            return inner.score(txt, ts_, pp)

        def score_final(self, txt, ts_, pp, prod):
            if st["trace"] is not None:
                st["trace"].keep.append(pp)
                st["trace"].ev.append(("expand", id(pp)))
                st["trace"].work("score", "final")
            return inner.score_final(txt, ts_, pp, prod)

    ctx["c13"]["scorer"] = Recording()


def _run(ctx, text, timeout, single=False):
    L, st = ctx["L"], ctx["c13"]
    scale = st.get("scale", 1.0)
    tr = st["trace"] = Trace(scale)
    timeout = timeout * scale
    out = []
    err = None
    res = None
    try:
        if single:
            res = L.ctparse(text, ts=TS, timeout=timeout, scorer=st["scorer"], **st.get("opts", {}))
        else:
            for p in L.ctparse_gen(text, ts=TS, timeout=timeout, scorer=st["scorer"], **st.get("opts", {})):
                tr.ev.append(("yield", None))
                out.append(None if p is None else (V.jsonable(V.full(p.resolution)), [str(x) for x in p.production], p.score))
    except BaseException as e:  # noqa
        err = "%s: %s" % (type(e).__name__, e)
    finally:
        st["trace"] = None
    return tr, out, err, res


def gen_cases(tier, seed):
    """the number of reads of each input is measured in the worker that enumerates its expiry points: one case per input"""
    cases = [{"t": t, "mode": "all"} for t in TEXTS]
    cases += [{"t": t, "mode": "strat"} for t in BIG]
    # 'cold': the FIRST parse of this text in the worker process is one whose deadline expires early (inside the sequence
    # enumeration, or in the initial phase); only then the unlimited reference is taken.  Texts differ from all others
    # (state keyed on the text that a timed-out call leaves behind must not leak into later calls).
    for i, t in enumerate(["9 9 9 9 9", "7 7 7 7 7 7", "tomorrow 9 yesterday Sep 8 8 11 2023 1923", "1 3 5 7 9 11", "mo mi fr so", "4.4. 4.4. 4.4. 4.4.",
                           "übermorgen 9pm", "friday 10-6", "11.05.2021 - 13.05.2021", "von 9 uhr bis 11 uhr"]):
        for k in (3, 9, 27):
            cases.append({"t": t + (" " * 0), "mode": "cold", "cold_k": k, "tag": "%d/%d" % (i, k)})
    # the same obligations under the other option settings (no depth limit, depth 1, partial coverage allowed, no anchoring)
    optsets = [{"max_stack_depth": 0}, {"max_stack_depth": 1}, {"relative_match_len": 0.5}, {"max_stack_depth": 0, "relative_match_len": 0.3, "latent_time": False}]
    otexts = ["1 1 1 1", "tomorrow 9pm", "8 8 8 xyz 9 9", "am 5. um 8 uhr", "friday 10-6", "12.12. 12:12"]
    for i, t in enumerate(otexts if tier == "thorough" else otexts[:4]):
        for j, o in enumerate(optsets):
            if tier == "thorough" or (i + j) % 2 == 0:
                cases.append({"t": t, "mode": "strat", "o": o})
    # the same obligations with the virtual clock ticking in small units, so that every deadline handed to the library is a
    # sub-millisecond (1e-4 s per tick) or a very large (1e4 s per tick) positive number: 'positive timeout' has no threshold
    for t in (["tomorrow 9pm", "1 1 1 1", "am 5. um 8 uhr"] if tier != "thorough" else ["tomorrow 9pm", "1 1 1 1", "am 5. um 8 uhr", "friday 10-6", "8 8 8 8 8"]):
        for sc in (1e-4, 1e-6, 1e4):
            cases.append({"t": t, "mode": "strat", "scale": sc, "o": {}})
    if tier == "thorough":
        from ..spec import grammar as G
        r = C.rng(seed, "C13")
        for _ in range(150):
            cases.append({"t": G.expression(r)[1], "mode": "all"})
        for n in (7,):
            cases.append({"t": " ".join(["8"] * n), "mode": "strat"})
    else:
        from ..spec import grammar as G
        r = C.rng(seed, "C13")
        for _ in range(25):
            cases.append({"t": G.expression(r)[1], "mode": "all"})
    return cases


def check_trace(L, tr, nmatches):
    """oracles (3) and (4) on one ordered trace; returns list of (tag, msg)"""
    pr = []
    R = len(L.registry)
    bound_apply = R * max(1, nmatches)
    bound_score = bound_apply + max(1, nmatches)
    seg = {"analysis": 0, "apply": 0, "score": 0}
    expanded = set()
    raised = False
    for e in tr.ev:
        kind, x = e[0], e[1]
        if kind == "check":
            if x == "ok" and tr.timeout and e[2] - tr.start > tr.timeout:
                pr.append(("deadline-check-ignored-expiry", "a deadline check returned although %d ticks had passed since the start (timeout %s)" % (e[2] - tr.start, tr.timeout)))
                break
            if raised:
                pr.append(("check-after-raise", "a deadline check ran after one had already raised"))
            if x.startswith("raise"):
                raised = True
            seg = {"analysis": 0, "apply": 0, "score": 0}
            expanded = set()
            continue
        if kind == "expand":
            expanded.add(x)
            if len(expanded) > 1:
                pr.append(("several-partial-parses-expanded-between-checks", "%d partial parses were expanded/emitted since the last deadline check" % len(expanded)))
                break
            continue
        if kind in ("analysis", "apply", "score", "yield"):
            if raised:
                pr.append(("work-after-expiry", "%s event after the deadline check that raised" % kind))
                break
        if kind in seg:
            seg[kind] += 1
            if kind == "analysis" and seg[kind] > 1:
                pr.append(("unbounded-analyses-between-checks", "%d rule-applicability analyses since the last deadline check" % seg[kind]))
                break
            if kind == "apply" and seg[kind] > bound_apply:
                pr.append(("unbounded-applications-between-checks", "%d rule applications since the last check (bound %d)" % (seg[kind], bound_apply)))
                break
            if kind == "score" and seg[kind] > bound_score:
                pr.append(("unbounded-scorings-between-checks", "%d scorings since the last check (bound %d)" % (seg[kind], bound_score)))
                break
    return pr


def run_case(case, ctx):
    L, mon = ctx["L"], ctx["mon"]
    text = case["t"]
    if ctx["c13"].get("broken"):
        return {"st": "inconc", "msg": ctx["c13"]["broken"]}
    ctx["c13"]["opts"] = dict(case.get("o") or {})
    ctx["c13"]["scale"] = case.get("scale", 1.0)
    key0 = "C13|" + text + ("|cold%s" % case.get("tag") if case["mode"] == "cold" else "") + ("|%s" % sorted(case["o"].items()) if case.get("o") else "") + ("|scale=%g" % case["scale"] if case.get("scale") else "")
    if case["mode"] == "cold":
        return _cold(case, ctx)
    # reference: unlimited run (timeout=0) - also oracle (5)
    tr0, full, err0, _ = _run(ctx, text, 0)
    nmatches = len(mon.case_matches)
    probs = []
    if err0:
        return C.viol("raises/timeout=0", "%r with timeout=0: %s" % (text, err0), key0, "ref")
    checks0 = [e for e in tr0.ev if e[0] == "check"]
    if any(e[1] != "ok" for e in checks0):
        probs.append(("timeout0-expired", "timeout=0 raised a deadline"))
    # a reference with a huge deadline gives the number of clock reads of the run
    trN, fullN, errN, _ = _run(ctx, text, 10 ** 9)
    if not any(e[0] == "read" for e in trN.ev):
        return {"st": "inconc", "msg": "the library did not read the virtual clock (ctparse.timers.perf_counter) once in a run with a deadline: it takes its time from somewhere else"}
    if errN or fullN != full:
        probs.append(("huge-timeout-differs", "timeout=1e9 gives different yields than timeout=0 (%s)" % errN))
    # timeout=0 means no limit for the single-result call as well: it returns the best of the unlimited stream
    trS, _, errS, resS = _run(ctx, text, 0, single=True)
    mon.events["single_call_timeout0"] += 1
    candS = [o for o in full if o is not None]
    if errS:
        probs.append(("raises", "ctparse(timeout=0): %s" % errS))
    elif resS is None or (resS.resolution is None) != (not candS) or (candS and resS.score != max(o[2] for o in candS)):
        probs.append(("single-call-timeout0-differs", "ctparse(timeout=0) returned %r, the unlimited stream holds %d candidates (best score %r)" % (
            None if resS is None else (V.show(C.resv(resS)), resS.score), len(candS), max((o[2] for o in candS), default=None))))
    nreads = trN.now
    probs += [(t, "unlimited run: " + m) for t, m in check_trace(L, trN, nmatches)]
    if case["mode"] == "all" and nreads <= 1200:
        ks = list(range(1, nreads + 2))
    else:
        ks = sorted(set(list(range(1, 61)) + list(range(61, min(nreads, 1500), 7)) + list(range(1500, nreads, 37 if nreads < 20000 else 997)) + list(range(max(1, nreads - 20), nreads + 2))))
    if (case.get("o") or case.get("scale")) and len(ks) > 130:
        # option variants: the first 50 expiry points (initial phase), the last 20 and 60 spread over the rest
        mid = ks[50:-20]
        ks = ks[:50] + mid[:: max(1, len(mid) // 60)] + ks[-20:]
    fired = 0
    for k in ks:
        tr, out, err, _ = _run(ctx, text, k - 0.5)
        mon.events["expiry_point"] += 1
        if err:
            probs.append(("raises", "k=%d: %s" % (k, err)))
            continue
        if any(e[0] == "check" and e[1] == "raise:CTParseTimeoutError" for e in tr.ev):
            fired += 1
            mon.events["deadline_fired"] += 1
        if out != full[:len(out)]:
            probs.append(("not-a-prefix", "k=%d: %d yields are not a prefix of the unlimited run's %d" % (k, len(out), len(full))))
        for t, m in check_trace(L, tr, nmatches):
            probs.append((t, "k=%d: %s" % (k, m)))
        # single-result call under the same deadline: best of the prefix or empty
        if k % 3 == 0 or len(ks) < 80:
            tr2, _, err2, res = _run(ctx, text, k - 0.5, single=True)
            mon.events["single_call_under_deadline"] += 1
            if err2:
                probs.append(("raises", "ctparse() k=%d: %s" % (k, err2)))
            elif res is not None:
                cand = [o for o in out if o is not None]
                if res.resolution is None:
                    if cand:
                        probs.append(("result-empty-though-prefix-nonempty", "k=%d" % k))
                else:
                    best = max(o[2] for o in cand) if cand else None
                    if best is None or res.score != best:
                        probs.append(("result-not-best-of-prefix", "k=%d: returned score %r, best of prefix %r" % (k, res.score, best)))
        if len(probs) > 30:
            break
    if probs:
        tags = sorted(set(p[0] for p in probs))
        return C.viol(tags[0], "%r (%d clock reads, %d expiry points): %d problems %s; first: %s" % (text, nreads, len(ks), len(probs), tags, probs[0][1]), key0, case["mode"])
    return C.ok(key0, case["mode"], nt=fired > 0, obs_={"text": text, "clock_reads": nreads, "expiry_points": len(ks), "deadline_fired": fired,
                                                         "yields_unlimited": len(full), "matches": nmatches},
                ev={"clock_reads_total": nreads})


def _cold(case, ctx):
    """first parse of the text in this process: timed out after cold_k ticks; then the unlimited run; the yields of the
    unlimited run are returned as a digest and compared by the coordinator with the digests other (fresh) worker processes
    obtained for the same text after other first deadlines - and the timed-out yields must be a prefix of them"""
    mon = ctx["mon"]
    text = case["t"]
    key0 = "C13|" + text + "|cold" + case["tag"]
    tr1, out1, err1, _ = _run(ctx, text, case["cold_k"] - 0.5)
    mon.events["expiry_point"] += 1
    if any(e[0] == "check" and e[1].startswith("raise") for e in tr1.ev):
        mon.events["deadline_fired"] += 1
    tr0, full, err0, _ = _run(ctx, text, 0)
    probs = []
    if err1 or err0:
        probs.append(("raises", "%s / %s" % (err1, err0)))
    if any(e[0] == "check" and e[1] != "ok" for e in tr0.ev):
        probs.append(("timeout0-expired", "timeout=0 raised a deadline after an earlier timed-out call"))
    if out1 != full[:len(out1)]:
        probs.append(("not-a-prefix", "yields of the cold timed-out call are not a prefix of the later unlimited run"))
    if probs:
        return C.viol("cold/" + probs[0][0], "%r (first call timed out after %d ticks): %s" % (text, case["cold_k"], probs[0][1]), key0, "cold")
    import hashlib
    dig = hashlib.sha256(json.dumps(full, sort_keys=True, default=str).encode()).hexdigest()[:16]
    return C.ok(key0, "cold", nt=True, obs_={"text": text, "cold_k": case["cold_k"], "unlimited_yields": len(full), "digest": dig})


def post_check(results, summaries, events, rules, tier):
    # the unlimited run must give the same yields whichever deadline the first call of that text had (different worker processes)
    by = {}
    for r in results:
        o = r.get("obs") or {}
        if r["st"] == "ok" and r.get("cls") == "cold" and "digest" in o:
            by.setdefault(o["text"], set()).add((o["digest"], o["unlimited_yields"]))
    for t, ds in by.items():
        if len(ds) > 1:
            yield ("violation", "timeout=0 after an earlier timed-out call of %r gives different candidate streams depending on where that deadline fell: %s" % (t, sorted(ds)))
    if not events.get("expiry_point") or not events.get("deadline_fired"):
        yield ("inconclusive", "no expiry point observed firing (%s)" % {k: events.get(k) for k in ("expiry_point", "deadline_fired")})


def extra_coverage(results, summaries):
    ev = {}
    for s in summaries:
        for k, v in s.get("events", {}).items():
            ev[k] = ev.get(k, 0) + v
    return {"evaluations": int(ev.get("expiry_point", 0)), "distinct_nontrivial": int(ev.get("deadline_fired", 0)),
            "inputs": len([r for r in results if r["st"] in ("ok", "viol")]),
            "explanation_counts": "evaluations = (input, expiry point) executions; distinct_nontrivial = those in which the deadline really fired inside the run"}
