"""C08 — durations keep amount and unit; 'X for N units' ends exactly N units
later; '<N days/nights> <date range>' only when the range is N days long.
Monitors: API recorder + a contract at the three duration/interval rules."""
from datetime import date, datetime, timedelta

from ..spec import cal, grammar as G, values as V
from . import common as C

TITLE = "durations"
LEVEL = "exploration"
RULE = ("case kinds: dur (N in 0..120 in digits x every unit word; every number word of both languages x every unit "
        "word; half forms), for ('<date[ time]> for/für <N units>' over start dates of the leap cycle incl. month ends, N "
        "up to several years' worth), rangedur ('<N days/nights> <date range>' in the three word orders, matching and "
        "non-matching N). The contract on ruleDurationInterval / ruleIntervalDuration / ruleIntervalConjDuration is "
        "evaluated on every call the search makes. non-trivial = resolution returned and a rule fired.")
ASSUMPTIONS = ["configuration D (timeout=0)",
               "excluded with the competing reading: unit letter 'h' after a number (clock suffix), digit + singular nacht/night (day of month + part of day)",
               "month addition clips to the end of the month (31 Jan + 1 month = 28/29 Feb)"]

TS0 = datetime(2021, 3, 10, 12, 43, 30)
CONTRACT_RULES = ("ruleDurationInterval", "ruleIntervalDuration", "ruleIntervalConjDuration")


def setup_worker(ctx):
    """contract at the rule boundary: an interval handed back for a days/nights
    (weeks) duration is exactly that long"""
    L, mon = ctx["L"], ctx["mon"]
    ctx["contract_breaches"] = []
    reg = L.registry
    for name in CONTRACT_RULES:
        if name not in reg:
            continue
        fn, pats = reg[name]

        def wrapped(ts, *args, _fn=fn, _name=name):
            res = _fn(ts, *args)
            mon.events["contract_eval/" + _name] += 1
            if res is not None:
                dur = [a for a in args if type(a).__name__ == "Duration"]
                iv = [a for a in args if type(a).__name__ == "Interval"]
                if dur and iv:
                    u = getattr(dur[0].unit, "value", None)
                    per = {"days": 1, "nights": 1, "weeks": 7}.get(u)
                    mon.events["contract_nonnull/" + _name] += 1
                    try:
                        f, t = res.t_from, res.t_to
                        # the range "really is N days long": with clock times on its ends the length is taken to the minute
                        ln = datetime(t.year, t.month, t.day, t.hour or 0, t.minute or 0) - datetime(f.year, f.month, f.day, f.hour or 0, f.minute or 0)
                        n = ln.days if ln == timedelta(days=ln.days) else None
                    except Exception:
                        n = None
                    if per is None or n != per * dur[0].value or V.val(res) != V.val(iv[0]):
                        ctx["contract_breaches"].append("%s returned %s for %s %s" % (_name, V.show(V.val(res)), dur[0].value, u))
            return res

        wrapped.__name__ = getattr(fn, "__name__", name)
        reg[name] = (wrapped, pats)


def gen_cases(tier, seed):
    r = C.rng(seed, "C08")
    cases = []
    for u, ws in G.UNIT_WORDS.items():
        for w in ws:
            for n in range(0, 121):
                if tier != "thorough" and n > 32 and n % 7:
                    continue
                for tight in (0, 1):
                    cases.append({"k": "dur", "c": "digit%s/%s" % ("-tight" if tight else "", u), "f": ("%d%s" if tight else "%d %s") % (n, w),
                                  "n": n, "u": u, "x": "digit+singular-night:day-of-month+part-of-day" if w in G.DIGIT_UNIT_EXCLUDED else None})
            for i in range(31):
                cases.append({"k": "dur", "c": "word-en/%s" % u, "f": "%s %s" % (G.NUM_EN[i], w), "n": i + 1, "u": u})
                cases.append({"k": "dur", "c": "word-de/%s" % u, "f": "%s %s" % (G.NUM_DE[i], w), "n": i + 1, "u": u})
            for n_, vs in G.NUM_DE_VARIANTS.items():
                for v in vs:
                    cases.append({"k": "dur", "c": "word-de-variant/%s" % u, "f": "%s %s" % (v, w), "n": n_, "u": u})
            for one in G.NUM_ONE_VARIANTS:
                cases.append({"k": "dur", "c": "word-one/%s" % u, "f": "%s %s" % (one, w), "n": 1, "u": u})
    for f, (n, u) in G.HALF_FORMS.items():
        cases.append({"k": "dur", "c": "half", "f": f, "n": n, "u": u})
    # '<date[ time]> for <duration>'
    starts = cal.boundary_dates(2016, 2029)
    if tier != "thorough":
        starts = r.sample(starts, 150)
    else:
        starts = starts + r.sample(cal.cycle_dates(2016, 2029), 1500)
    maxn = {"days": 1500, "nights": 400, "weeks": 200, "months": 60, "hours": 100, "minutes": 900}
    for d in starts:
        for u in G.UNIT_WORDS:
            n = r.choice([1, 2, 3, r.randrange(1, 32), r.randrange(1, maxn[u])])
            w = r.choice([x for x in G.UNIT_WORDS[u] if x not in ("m",)])
            with_time = r.random() < 0.35
            h, mi = r.randrange(24), r.choice([0, 30, 45])
            numform = r.random()
            cases.append({"k": "for", "d": d.isoformat(), "h": h if with_time else None, "mi": mi if with_time else None,
                          "j": r.choice(["for", "für"]), "n": n, "u": u, "w": w, "word": numform < 0.2 and n <= 31})
    # month arithmetic from the days that do not exist in every month: every N from 1 to 60 months from 29 Feb, 31 Jan, 31 Aug,
    # 30 Nov and 31 Dec (the end is clipped to the target month's length, once, at the end of the addition)
    for (y, mo, dd) in ((2020, 2, 29), (2024, 2, 29), (2021, 1, 31), (2023, 8, 31), (2022, 11, 30), (2019, 12, 31), (2016, 2, 29), (2025, 3, 31)):
        for n in range(1, 61):
            if tier != "thorough" and (n + y) % 3:
                continue
            cases.append({"k": "for", "d": date(y, mo, dd).isoformat(), "h": None, "mi": None, "j": "for" if n % 2 else "für", "n": n, "u": "months",
                          "w": ("months" if n > 1 else "month") if n % 2 else ("monate" if n > 1 else "monat"), "word": False})
    # hour / minute durations that cross midnight at a month or year end (every field of the end has to roll over)
    for y in (2016, 2019, 2020, 2023, 2024, 2028):
        for (mo, dd) in ((12, 31), (2, 28), (2, 29), (11, 30), (1, 31), (4, 30)):
            if dd > cal.mlen(y, mo):
                continue
            for (h, mi) in ((22, 15), (23, 0), (23, 59)):
                for (n, u, w) in ((2, "hours", "hours"), (90, "minutes", "minutes"), (30, "hours", "stunden"), (3000, "minutes", "minuten"), (1, "hours", "hour")):
                    if tier != "thorough" and (y + mo + h + n) % 3:
                        continue
                    cases.append({"k": "for", "d": date(y, mo, dd).isoformat(), "h": h, "mi": mi, "j": "for" if n % 2 == 0 else "für", "n": n, "u": u, "w": w, "word": False})
    # '<N days> <range whose ends carry clock times>': N whole days plus some hours is not N days
    for i in range(200 if tier == "thorough" else 60):
        a = date(2016, 1, 1) + timedelta(days=r.randrange(5000))
        n = r.choice([1, 2, 3, 5])
        cases.append({"k": "rangedur-timed", "a": a.isoformat(), "n": n, "h1": r.choice([0, 8, 9]), "h2": r.choice([7, 18, 23]), "u": r.choice(["days", "nights"]),
                      "order": ["dur-range", "range-dur", "range-für-dur"][i % 3]})
    # '<N days/nights> <date range>'
    for i in range(600 if tier == "thorough" else 120):
        a = date(2016, 1, 1) + timedelta(days=r.randrange(5000))
        length = r.choice([1, 2, 3, 5, 7, 14, r.randrange(1, 40)])
        n = length if i % 2 == 0 else max(0, length + r.choice([-2, -1, 1, 2, 5]))
        cases.append({"k": "rangedur", "a": a.isoformat(), "len": length, "n": n, "u": r.choice(["days", "nights"]),
                      "order": r.choice(["dur-range", "range-dur", "range-für-dur"]), "word": r.random() < 0.3 and n <= 31 and n > 0})
    # non-matching ranges that differ from N days by whole months / years / weeks (calendar-arithmetic slips hide there)
    for i in range(400 if tier == "thorough" else 90):
        a = date(2016, 1, 1) + timedelta(days=r.randrange(5000))
        n = r.choice([1, 2, 3, 5, 7, 10])
        kind = i % 3
        if kind == 0:
            b = cal.add_months(a, r.choice([1, 1, 2, 3, 12])) + timedelta(days=n)
        elif kind == 1:
            b = a + timedelta(days=n + 7 * r.choice([1, 2, 4]))
        else:
            b = cal.add_months(a + timedelta(days=n), 12 * r.choice([1, 2]))
        length = (b - a).days
        if length == n or b.year > 2029:
            continue
        cases.append({"k": "rangedur", "a": a.isoformat(), "len": length, "n": n, "u": r.choice(["days", "nights"]),
                      "order": ["dur-range", "range-dur", "range-für-dur"][i % 3 if i % 2 else 0], "word": False})
    r.shuffle(cases)
    return cases


def _numtext(n, word, r_de):
    if word and 1 <= n <= 31:
        return (G.NUM_DE if r_de else G.NUM_EN)[n - 1]
    return str(n)


def run_case(case, ctx):
    ctx["contract_breaches"][:] = []
    k = case["k"]
    if k == "dur":
        res = _dur(case, ctx)
    elif k == "for":
        res = _for(case, ctx)
    elif k == "rangedur-timed":
        res = _rangedur_timed(case, ctx)
    else:
        res = _rangedur(case, ctx)
    if ctx["contract_breaches"] and res["st"] != "viol":
        return C.viol("contract/duration-interval-length", "; ".join(ctx["contract_breaches"][:3]), res.get("key"), res.get("cls"))
    return res


def _dur(case, ctx):
    key = "dur|" + case["f"]
    cls = "dur/" + case["c"]
    if case.get("x"):
        return {"st": "excl", "sig": case["x"], "key": key, "cls": cls}
    r = C.api(ctx, case["f"], TS0)
    got = C.resv(r)
    exp = ("D", case["n"], case["u"])
    if got == exp:
        return C.ok(key, cls, nt=bool(ctx["mon"].case_rules), obs_={"text": case["f"], "got": V.show(got)})
    what = "not-a-duration"
    if got and got[0] == "D":
        what = "amount" if got[2] == exp[2] else ("unit" if got[1] == exp[1] else "amount+unit")
    return C.viol("dur/%s/%s" % (case["c"].split("/")[0], what), "%r: expected %s, got %s via %s" % (case["f"], V.show(exp), V.show(got), C.obs(r)), key, cls)


def _for(case, ctx):
    d = date.fromisoformat(case["d"])
    n, u = case["n"], case["u"]
    de = case["j"] == "für"
    start_txt = "%02d.%02d.%04d" % (d.day, d.month, d.year)
    if case["h"] is not None:
        start_txt += " %02d:%02d" % (case["h"], case["mi"])
    text = "%s %s %s %s" % (start_txt, case["j"], _numtext(n, case["word"], de), case["w"])
    key = "for|" + text
    cls = "for/%s%s" % (u, "/timed" if case["h"] is not None else "")
    st = datetime(d.year, d.month, d.day, case["h"] or 0, case["mi"] or 0)
    frm = V.T(d.year, d.month, d.day, case["h"], case["mi"])
    if u in ("days", "nights"):
        e = st + timedelta(days=n)
    elif u == "weeks":
        e = st + timedelta(days=7 * n)
    elif u == "months":
        e = cal.add_months(st, n)
    elif u == "hours":
        e = st + timedelta(hours=n)
    else:
        e = st + timedelta(minutes=n)
    to = V.T(e.year, e.month, e.day, e.hour, e.minute) if u in ("hours", "minutes") else V.T(e.year, e.month, e.day)
    exp = ("I", frm, to)
    r = C.api(ctx, text, TS0)
    got = C.resv(r)
    if got == exp:
        return C.ok(key, cls, nt=bool(ctx["mon"].case_rules), obs_={"text": text, "got": V.show(got)})
    try:
        rE = C.resv(C.api(ctx, text, TS0, max_stack_depth=0))
    except Exception:
        rE = None
    mech = "beam-truncation" if rE == exp else "wrong"
    what = "end" if (got and got[0] == "I" and got[1] == frm) else "shape"
    return C.viol("%s/for/%s%s/%s" % (mech, u, "/timed" if case["h"] is not None else "", what), "%r: expected %s, got %s via %s" % (text, V.show(exp), V.show(got), C.obs(r)), key, cls)


def _rangedur_timed(case, ctx):
    a = date.fromisoformat(case["a"])
    b = a + timedelta(days=case["n"])
    de = case["order"] == "range-für-dur"
    words = {"days": ("days", "tage"), "nights": ("nights", "nächte")}[case["u"]]
    dur = "%d %s" % (case["n"], words[1] if de else words[0])
    rng = "%02d.%02d.%04d %02d:00 - %02d.%02d.%04d %02d:00" % (a.day, a.month, a.year, case["h1"], b.day, b.month, b.year, case["h2"])
    text = {"dur-range": "%s %s" % (dur, rng), "range-dur": "%s %s" % (rng, dur), "range-für-dur": "%s für %s" % (rng, dur)}[case["order"]]
    key = "rangedur-timed|" + text
    cls = "rangedur-timed/" + case["order"]
    r = C.api(ctx, text, TS0)
    prod = [str(x) for x in (r.production or ())] if r else []
    used = [p for p in prod if p in CONTRACT_RULES]
    if used and case["h1"] != case["h2"]:
        return C.viol("rangedur/non-matching-accepted", "%r: a range of %d days and %d hours was accepted for %d %s via %s" % (
            text, case["n"], case["h2"] - case["h1"], case["n"], case["u"], used), key, cls)
    return C.ok(key, cls, nt=bool(ctx["mon"].case_rules), obs_={"text": text, "got": V.show(C.resv(r)), "note": "not accepted as N-day range"})


def _rangedur(case, ctx):
    a = date.fromisoformat(case["a"])
    b = a + timedelta(days=case["len"])
    n, u = case["n"], case["u"]
    de = case["order"] == "range-für-dur"
    words = {"days": ("days", "tage"), "nights": ("nights", "nächte")}[u]
    dur = "%s %s" % (_numtext(n, case["word"], de), words[1] if de else words[0])
    rng = "%02d.%02d.%04d - %02d.%02d.%04d" % (a.day, a.month, a.year, b.day, b.month, b.year)
    text = {"dur-range": "%s %s" % (dur, rng), "range-dur": "%s %s" % (rng, dur), "range-für-dur": "%s für %s" % (rng, dur)}[case["order"]]
    key = "rangedur|" + text
    match = n == case["len"]
    cls = "rangedur/%s/%s" % (case["order"], "matching" if match else "non-matching")
    r = C.api(ctx, text, TS0)
    got = C.resv(r)
    prod = [str(x) for x in (r.production or ())] if r else []
    used = [p for p in prod if p in CONTRACT_RULES]
    iv = ("I", V.T(a.year, a.month, a.day), V.T(b.year, b.month, b.day))
    if match:
        # the property only says "accepted only when": acceptance of a matching
        # range is recorded for coverage, not demanded
        return C.ok(key, cls, nt=True, obs_={"text": text, "got": V.show(got), "accepted_via": used})
    if used:
        return C.viol("rangedur/non-matching-accepted", "%r: a %d-day range was accepted for %d %s via %s -> %s" % (text, case["len"], n, u, used, V.show(got)), key, cls)
    return C.ok(key, cls, nt=bool(ctx["mon"].case_rules), obs_={"text": text, "got": V.show(got), "note": "not accepted as N-day range"})


def post_check(results, summaries, events, rules, tier):
    if not events.get("api_return"):
        yield ("inconclusive", "API monitor observed no call")
    nev = sum(v for k, v in events.items() if k.startswith("contract_eval/"))
    nn = sum(v for k, v in events.items() if k.startswith("contract_nonnull/"))
    if not nev or not nn:
        yield ("inconclusive", "duration/interval contract never evaluated on a non-null result (evaluations=%d non-null=%d)" % (nev, nn))
    need = ["ruleDigitDuration", "ruleNamedNumberDuration", "ruleDurationHalf", "ruleTimeDuration", "ruleDurationInterval",
            "ruleIntervalDuration", "ruleIntervalConjDuration"]
    silent = [n for n in need if not rules.get(n)]
    if silent:
        yield ("inconclusive", "rules never observed to fire: %s" % silent)
