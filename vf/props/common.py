"""Helpers shared by the per-property modules."""
import random
from datetime import date, datetime, time as dtime

from ..spec import values as V

TIMES_OF_DAY = ["00:00:00", "12:43:30.500000", "23:59:59.999999"]


def iso(ts):
    return ts.isoformat()


def parse_ts(s):
    if s is None:
        return None
    return datetime.fromisoformat(s)


def at(d, tod):
    return datetime.combine(d, dtime.fromisoformat(tod))


def rng(seed, *salt):
    return random.Random("%s/%s" % (seed, "/".join(str(s) for s in salt)))


def api(ctx, text, ts, **opts):
    """one observed call of the single-result API under configuration D
    (defaults, timeout=0)"""
    mon = ctx["mon"]
    mon.begin()
    opts.setdefault("timeout", 0)
    mon.events["api_call"] += 1
    r = ctx["L"].ctparse(text, ts=ts, **opts)
    mon.events["api_return"] += 1
    return r


def resv(r):
    """structural value of the resolution of a result (None when empty)"""
    if r is None or getattr(r, "resolution", None) is None:
        return None
    return V.val(r.resolution)


def obs(r):
    if r is None:
        return None
    return {"resolution": V.show(resv(r)), "production": [str(x) for x in (r.production or ())][:14]}


def diag_E(ctx, text, ts, expect_val, **opts):
    """configuration E (exhaustive search) purely as a diagnostic label"""
    try:
        r = api(ctx, text, ts, max_stack_depth=0, **opts)
    except Exception:
        return "E-raises"
    return "E-ok" if resv(r) == expect_val else "E-fails"


def ok(key, cls, nt=True, obs_=None, ev=None):
    r = {"st": "ok", "key": key, "cls": cls, "nt": nt}
    if obs_ is not None:
        r["obs"] = obs_
    if ev:
        r["ev"] = ev
    return r


def viol(sig, msg, key=None, cls=None, trace=None):
    r = {"st": "viol", "sig": sig, "msg": msg, "key": key, "cls": cls, "nt": True}
    if trace is not None:
        r["trace"] = trace
    return r
