"""Helpers shared by the per-property modules."""
import random
from datetime import date, datetime, time as dtime

from ..spec import values as V

TIMES_OF_DAY = ["00:00:00", "12:43:30.500000", "23:59:59.999999"]


def iso(ts):
    return ts.isoformat()


def parse_ts(s):
    if s is None:
        return None
    return datetime.fromisoformat(s)


def at(d, tod):
    return datetime.combine(d, dtime.fromisoformat(tod))


def rng(seed, *salt):
    return random.Random("%s/%s" % (seed, "/".join(str(s) for s in salt)))


def perturb(ctx, text, ts, opts=None):
    """History perturbation: every 4th observed call is preceded by one UNOBSERVED call that must not matter -- the same
    text under another reference time left as an abandoned stream, the same text in another letter case, the same call
    with a deadline that expires at once, the same call with latent anchoring flipped, or an abandoned stream of the very
    same call.  By C12 none of these may influence the observed call, so on a correct tree this adds nothing but load; a
    cache keyed on too little, or state left dirty by an unfinished / timed-out call, then shows up under the oracle of
    whichever property is being checked."""
    mon, L = ctx["mon"], ctx["L"]
    # deterministic pseudo-random choice (an LCG per worker), so that the perturbed calls do not line up with the
    # per-case call pattern of a property
    x = ctx["_pert_x"] = (ctx.get("_pert_x", 12345) * 1103515245 + 12345) % (1 << 31)
    if (x >> 8) % 4 or ts is None or not isinstance(text, str):
        return
    mode = (x >> 16) % 5
    o = dict(opts or {})
    o.pop("debug", None)
    o["timeout"] = 0
    from datetime import timedelta
    from ..attach import StepBudget
    try:
        if mode == 0:
            g = L.ctparse_gen(text, ts=ts + timedelta(days=200, hours=7), **dict(o, latent_time=True))
            next(g, None)
            ctx.setdefault("_abandoned", []).append(g)
        elif mode == 1:
            L.ctparse(text.upper() if text != text.upper() else text.lower(), ts=ts, **o)
        elif mode == 2:
            L.ctparse(text, ts=ts, **dict(o, timeout=1e-9))
        elif mode == 3:
            list(L.ctparse_gen(text, ts=ts, **dict(o, latent_time=not o.get("latent_time", True))))
        else:
            g = L.ctparse_gen(text, ts=ts, **o)
            next(g, None)
            ctx.setdefault("_abandoned", []).append(g)
        ctx["_abandoned"] = ctx.get("_abandoned", [])[-3:]
    except (Exception, StepBudget):
        pass
    mon.events["history_perturbation/%d" % mode] += 1


def api(ctx, text, ts, **opts):
    """one observed call of the single-result API under configuration D
    (defaults, timeout=0)"""
    mon = ctx["mon"]
    perturb(ctx, text, ts, opts)
    mon.begin()
    opts.setdefault("timeout", 0)
    mon.events["api_call"] += 1
    r = ctx["L"].ctparse(text, ts=ts, **opts)
    mon.events["api_return"] += 1
    return r


def resv(r):
    """structural value of the resolution of a result (None when empty)"""
    if r is None or getattr(r, "resolution", None) is None:
        return None
    return V.val(r.resolution)


def obs(r):
    if r is None:
        return None
    return {"resolution": V.show(resv(r)), "production": [str(x) for x in (r.production or ())][:14]}


def diag_E(ctx, text, ts, expect_val, **opts):
    """configuration E (exhaustive search) purely as a diagnostic label"""
    try:
        r = api(ctx, text, ts, max_stack_depth=0, **opts)
    except Exception:
        return "E-raises"
    return "E-ok" if resv(r) == expect_val else "E-fails"


def ok(key, cls, nt=True, obs_=None, ev=None):
    r = {"st": "ok", "key": key, "cls": cls, "nt": nt}
    if obs_ is not None:
        r["obs"] = obs_
    if ev:
        r["ev"] = ev
    return r


def viol(sig, msg, key=None, cls=None, trace=None):
    r = {"st": "viol", "sig": sig, "msg": msg, "key": key, "cls": cls, "nt": True}
    if trace is not None:
        r["trace"] = trace
    return r
