"""C01 — parsing is total: any text, reference time and options yield a result
object; neither the call nor the stream raises; str()/repr() work; subject is a
string and labels a list of strings.  Call/return recorder at the API,
exception recorder in the rule bodies, and the fault 'model file absent'."""
import json
import os
import shutil
import subprocess
import tempfile

from .. import env
from . import common as C, streams as S

TITLE = "parsing is total"
LEVEL = "fault_enumeration"
RULE = ("case = (text, reference time, options); texts from four generators: G1 grammar expressions incl. impossible "
        "calendar dates, stacked part-of-day modifiers, empty/blank/label-only text (the fixed lists are run in every tier); "
        "G2 token soup over witnesses of all patterns with numbers 0-2100; G3 arbitrary Unicode <= 60 chars (astral, "
        "combining, controls, NUL); G4 bundled corpus/dataset texts mutated by token deletion/duplication/swap/truncation/"
        "insertion; reference times 1970-2100 incl. leap days, month/year ends, sub-minute parts and None; options latent x "
        "depth {0,1,10} x relative_match_len {1,.8,.5,.1,1e-9} x scorer {shipped, constant, seeded random} x debug. Both the "
        "single-result call and the stream are driven. Fault enumerated: shipped model file absent (os.path.exists reports "
        "it missing before import; thorough: also a scratch copy of the package without models/). non-trivial = at least "
        "one rule fired or one pattern matched; distinct on (text, reference time, options).")
ASSUMPTIONS = ["termination is judged on a step budget (20 000 deadline-check calls / 150 000 rule applications per call), never on wall-clock time; a case over budget is recorded as skipped",
               "lone surrogates are not generated (not Unicode strings)"]
WATCHDOG_S = {"quick": 900, "thorough": 7200}


def gen_cases(tier, seed):
    return S.gen(tier, seed, "C01", 6000, 200000)


def check_result(L, res, dbg):
    """the observable obligations on one result; returns list of problems"""
    pr = []
    CT = L.m.CTParse
    if dbg:
        items = []
        try:
            for x in res:
                items.append(x)
        except Exception as e:  # noqa
            return ["debug iterator raised %s: %s" % (type(e).__name__, e)]
        for x in items:
            if x is not None and not isinstance(x, CT):
                pr.append("debug stream yields %r" % type(x).__name__)
        res_list = [x for x in items if x is not None]
    else:
        if not isinstance(res, CT):
            return ["ctparse() returned %r, not a result object" % (type(res).__name__,)]
        res_list = [res]
    for x in res_list:
        try:
            s = str(x)
            rp = repr(x)
            if not isinstance(s, str) or not isinstance(rp, str):
                pr.append("str()/repr() not a string")
        except Exception as e:  # noqa
            pr.append("rendering raises %s: %s" % (type(e).__name__, e))
        if not isinstance(x.subject, str):
            pr.append("subject is %r" % type(x.subject).__name__)
        if not isinstance(x.labels, list) or not all(isinstance(l, str) for l in x.labels):
            pr.append("labels is %r" % (x.labels,))
    return pr


def run_case(case, ctx):
    L, mon = ctx["L"], ctx["mon"]
    ts = C.parse_ts(case["ts"])
    o, dbg = S.opts(case, L)
    key = json.dumps([case["t"], case["ts"], case["o"]], ensure_ascii=False, sort_keys=True)
    cls = case["g"]
    C.perturb(ctx, case["t"], ts, {k: v for k, v in o.items() if k != "timeout"})
    mon.begin()
    mon.events["api_call"] += 1
    stage = "ctparse"
    try:
        res = L.ctparse(case["t"], ts=ts, debug=dbg, **o)
        mon.events["api_return"] += 1
        pr = check_result(L, res, dbg)
        stage = "ctparse_gen"
        o2, _ = S.opts(case, L)
        n = 0
        for x in L.ctparse_gen(case["t"], ts=ts, **o2):
            n += 1
            mon.events["stream_yield"] += 1
            if x is not None:
                str(x), repr(x)
        mon.events["stream_end"] += 1
    except Exception as e:  # noqa  -- an escaping exception is the violation itself
        from ..worker import _repo_frame
        import traceback
        fr = _repo_frame(e.__traceback__) or "?"
        rule = mon.case_raises[-1][0] if mon.case_raises else None
        return C.viol("raises/%s/%s@%s" % (stage, type(e).__name__, rule or fr), "%r (ts=%s, %s): %s: %s" % (case["t"], case["ts"], case["o"], type(e).__name__, e),
                      key, cls, trace=traceback.format_exc()[-1500:])
    if pr:
        kind = "render" if any("render" in p for p in pr) else "shape"
        empty = (not dbg) and res.resolution is None
        return C.viol("%s/%s" % (kind, "no-match-result" if empty else "result"), "%r (ts=%s, %s): %s" % (case["t"], case["ts"], case["o"], pr[:3]), key, cls)
    nt = bool(mon.case_rules) or bool(mon.case_matches)
    return C.ok(key, cls, nt=nt, obs_={"text": case["t"], "ts": case["ts"], "options": case["o"], "result": (str(res)[:120] if not dbg else "debug stream"), "stream_len": n})


def run_special(tier, seed, workdir):
    """the configuration fault: shipped model absent"""
    results, sums = [], []
    variants = [("exists-patched", None)]
    tmp = None
    if tier == "thorough":
        tmp = tempfile.mkdtemp(prefix="vf-c01-nomodel-")
        shutil.copytree(os.path.join(env.REPO, "ctparse"), os.path.join(tmp, "ctparse"), ignore=shutil.ignore_patterns("models", "__pycache__"))
        variants.append(("package-without-models", tmp))
    try:
        for name, root in variants:
            envv = env.child_env({"VF_MODEL_ABSENT": name, "VF_SCRATCH_ROOT": root or ""})
            if root:
                envv["PYTHONPATH"] = os.pathsep.join([root, env.VERIF, env.DEPS])
            p = subprocess.run([env.PY, "-m", "vf.tools.model_absent", str(seed), "600" if tier == "thorough" else "250"], cwd=env.VERIF, env=envv,
                               capture_output=True, text=True, timeout=900)
            if p.returncode != 0 or not p.stdout.strip():
                results.append({"st": "inconc", "msg": "model-absent subprocess (%s) failed rc=%s: %s" % (name, p.returncode, p.stderr[-600:])})
                continue
            d = json.loads(p.stdout.strip().splitlines()[-1])
            sums.append({"_summary": True, "events": {"fault_model_absent_runs": 1, "fault_model_absent_calls": d["calls"]}, "rules_fired": {}, "extra": {}})
            case = {"k": "fault", "variant": name}
            if d["scorer"] != "DummyScorer":
                results.append({"st": "viol", "sig": "fault/model-absent/no-fallback", "msg": "with the model file absent the default scorer is %s" % d["scorer"], "key": "fault/" + name, "cls": "fault", "nt": True, "case": case})
            elif d["problems"]:
                results.append({"st": "viol", "sig": "fault/model-absent/" + d["problems"][0][0], "msg": "%d problems with the model absent; first: %s" % (len(d["problems"]), d["problems"][0]), "key": "fault/" + name, "cls": "fault", "nt": True, "case": case})
            else:
                results.append({"st": "ok", "key": "fault/" + name, "cls": "fault/model-absent", "nt": True, "case": case, "obs": {"variant": name, "default_scorer": d["scorer"], "calls": d["calls"], "with_resolution": d["resolved"]}})
    finally:
        if tmp:
            shutil.rmtree(tmp, ignore_errors=True)
    return results, sums


def post_check(results, summaries, events, rules, tier):
    if not events.get("api_return") or not events.get("stream_end"):
        yield ("inconclusive", "API monitor observed no completed call")
    if not events.get("fault_model_absent_runs"):
        yield ("inconclusive", "the model-absent fault was not exercised")
