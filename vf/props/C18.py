"""C18 — resolutions compare, hash and print by value; the printed form
round-trips.  icontract post-conditions on the real Artifact.__eq__ /
__hash__ (class attributes, so every comparison made anywhere - including the
dedup tables of the search - goes through them) + collision tables."""
import itertools
import json
import os
from datetime import datetime

from .. import env
from ..spec import values as V
from . import common as C

TITLE = "equality, hashing, text form"
LEVEL = "exploration"
RULE = ("case = one batch: (a) a present/absent mask of the 7 Time fields (all 128) x sampled values over the full ranges "
        "x {identical copy, different span, every single-field perturbation}; (b) all pairs of a pool of Interval ends "
        "incl. open ends; (c) Duration amounts 0..120 x all units against same / other amount / other unit; (d) cross-kind "
        "and foreign operands; (e) every gold string of the bundled dataset and corpora; (f) a corpus parse with the "
        "contracts on. evaluations = contract evaluations of __eq__/__hash__ + round-trips; non-trivial batch = at least "
        "one equal and one unequal pair observed; distinct on the batch id.")
ASSUMPTIONS = ["value model vf/spec/values.py (reads plain attributes only)",
               "full ranges: year 1..9999, month 1..12, day 1..31, hour 0..23, minute 0..59, weekday 0..6, every key of the library's part-of-day table"]
RAISE_IS_VIOLATION = True


class ContractBreach(Exception):
    pass


def setup_worker(ctx):
    import icontract
    L, mon = ctx["L"], ctx["mon"]
    A = L.types.Artifact
    st = ctx["c18"] = {"breaches": [], "hash_table": {}, "nb_table": {}, "eq_true": 0, "eq_false": 0}

    def eq_by_value(self, other, result):
        mon.events["contract_eq"] += 1
        want = (type(self) is type(other)) and V.val(self) == V.val(other)
        if bool(result) != want or not isinstance(result, bool):
            st["breaches"].append(("eq", "%r == %r gave %r, value model says %r" % (self, other, result, want)))
        if want:
            st["eq_true"] += 1
        else:
            st["eq_false"] += 1
        return True

    def hash_by_value(self, result):
        mon.events["contract_hash"] += 1
        k = (type(self).__name__, V.val(self))
        try:
            old = st["hash_table"].setdefault(k, result)
        except TypeError:
            return True
        if old != result:
            st["breaches"].append(("hash", "equal values %r hash differently: %r vs %r" % (k, old, result)))
        return True

    orig_eq, orig_hash = A.__eq__, A.__hash__
    A.__eq__ = icontract.ensure(eq_by_value, error=ContractBreach)(orig_eq)
    A.__hash__ = icontract.ensure(hash_by_value, error=ContractBreach)(orig_hash)
    # subclasses that define their own __eq__/__hash__ would bypass the contract: decorate them too
    for cls in (L.Time, L.Interval, L.Duration, L.RegexMatch):
        for name, cond in (("__eq__", eq_by_value), ("__hash__", hash_by_value)):
            if name in cls.__dict__:
                setattr(cls, name, icontract.ensure(cond, error=ContractBreach)(cls.__dict__[name]))


def _gold_strings():
    out = []
    try:
        with open(os.path.join(env.REPO, "datasets", "timeparse_corpus.json"), encoding="utf-8") as fd:
            out += [e["gold_parse"] for e in json.load(fd)]
    except OSError:
        pass
    return out


def gen_cases(tier, seed):
    cases = []
    reps = 40 if tier == "thorough" else 6
    for mask in range(128):
        for rep in range(reps if tier == "thorough" else max(1, reps // 2)):
            cases.append({"k": "time", "mask": mask, "rep": rep, "n": 12})
    cases.append({"k": "interval", "rep": 0, "pool": 14 if tier == "thorough" else 9})
    for rep in range(1, 12 if tier == "thorough" else 3):
        cases.append({"k": "interval", "rep": rep, "pool": 12 if tier == "thorough" else 8})
    for lo in range(0, 121, 10):
        cases.append({"k": "duration", "lo": lo, "hi": min(120, lo + 9)})
    cases.append({"k": "cross"})
    golds = _gold_strings()
    for i in range(0, len(golds), 100):
        cases.append({"k": "gold", "i": i, "j": min(len(golds), i + 100)})
    cases.append({"k": "corpusgold"})
    for i in range(0, 60 if tier == "thorough" else 16):
        cases.append({"k": "parse", "i": i})
    return cases


def _rand_time(L, r, mask, pods):
    kw = {}
    gens = {"year": lambda: r.choice([1, 999, 1000, 1970, 2020, 9999, r.randrange(1, 10000)]), "month": lambda: r.randrange(1, 13),
            "day": lambda: r.randrange(1, 32), "hour": lambda: r.randrange(0, 24), "minute": lambda: r.randrange(0, 60),
            "DOW": lambda: r.randrange(0, 7), "POD": lambda: r.choice(pods)}
    for i, f in enumerate(V.TIME_FIELDS):
        if mask >> i & 1:
            kw[f] = gens[f]()
    return kw


def _perturb(r, f, v, pods):
    if v is None:
        return {"year": 2020, "month": 6, "day": 15, "hour": 0, "minute": 0, "DOW": 0, "POD": pods[0]}[f]
    if f == "POD":
        return r.choice([p for p in pods if p != v])
    alt = {"year": [1, 9999, v + 1, v - 1, 2000], "month": [1, 12, v % 12 + 1], "day": [1, 31, v % 31 + 1], "hour": [0, 23, (v + 12) % 24, (v + 1) % 24],
           "minute": [0, 59, (v + 1) % 60], "DOW": [0, 6, (v + 1) % 7]}[f]
    alt = [a for a in alt if a != v and a >= (1 if f in ("year", "month", "day") else 0) and a <= 9999]
    return r.choice(alt)


def _span(a, s, e):
    a.mstart, a.mend = s, e
    return a


def run_case(case, ctx):
    L, st, mon = ctx["L"], ctx["c18"], ctx["mon"]
    st["breaches"][:] = []
    st["eq_true"] = st["eq_false"] = 0
    r = C.rng(ctx["seed"], "C18", json.dumps(case, sort_keys=True))
    pods = sorted(L.pod_hours)
    from ctparse.corpus import parse_nb_string
    k = case["k"]
    objs = []  # everything created, for the text-form checks
    problems = []

    def cmp(a, b):
        # every operator form the library uses
        a == b
        b == a
        a != b
        hash(a)
        hash(b)
        {a: 1}.get(b)
        objs.append(a)
        objs.append(b)

    if k == "time":
        for _ in range(case["n"]):
            kw = _rand_time(L, r, case["mask"], pods)
            a = _span(L.Time(**kw), r.randrange(0, 5), r.randrange(5, 40))
            cmp(a, _span(L.Time(**kw), a.mstart, a.mend))
            cmp(a, _span(L.Time(**kw), r.randrange(40, 50), r.randrange(50, 90)))
            for f in V.TIME_FIELDS:
                kw2 = dict(kw)
                kw2[f] = _perturb(r, f, kw.get(f), pods) if r.random() < 0.8 or kw.get(f) is None else None
                cmp(a, _span(L.Time(**kw2), a.mstart, a.mend))
        key = "time/mask%03d/%d" % (case["mask"], case["rep"])
    elif k == "interval":
        ends = [None, L.Time(), L.Time(hour=9), L.Time(hour=9, minute=0), L.Time(2020, 1, 1), L.Time(2020, 1, 1, 9, 0), L.Time(POD="morning"),
                L.Time(DOW=3)]
        while len(ends) < case["pool"]:
            ends.append(L.Time(**_rand_time(L, r, r.randrange(128), pods)))
        ivs = [(f, t) for f in ends for t in ends]
        pairs = list(itertools.product(range(len(ivs)), repeat=2))
        if len(pairs) > 6000:
            pairs = r.sample(pairs, 6000) + [(i, i) for i in range(len(ivs))]
        for i, j in pairs:
            a = _span(L.Interval(t_from=ivs[i][0], t_to=ivs[i][1]), 0, 10)
            b = _span(L.Interval(t_from=ivs[j][0], t_to=ivs[j][1]), r.randrange(0, 3), r.randrange(10, 20))
            cmp(a, b)
        key = "interval/%d" % case["rep"]
    elif k == "duration":
        units = list(L.DurationUnit)
        for n in range(case["lo"], case["hi"] + 1):
            for u in units:
                a = _span(L.Duration(n, u), 0, 6)
                cmp(a, _span(L.Duration(n, u), 3, 30))
                cmp(a, _span(L.Duration(n + 1, u), 0, 6))
                cmp(a, _span(L.Duration((n * 7) % 121, u), 0, 6))
                for u2 in units:
                    cmp(a, _span(L.Duration(n, u2), 0, 6))
                    cmp(a, _span(L.Duration(r.randrange(0, 121), u2), 0, 6))
        key = "duration/%d" % case["lo"]
    elif k == "cross":
        import regex
        m = regex.compile(r"(?P<R1>\d+)").search("ab 12 cd")
        things = [L.Time(), L.Time(2020, 1, 1), L.Interval(), L.Interval(L.Time(2020, 1, 1), None), L.Duration(1, L.DurationUnit.DAYS),
                  L.Duration(1, L.DurationUnit.NIGHTS), L.RegexMatch(1, m), L.types.Artifact()]
        for a in things:
            for b in things:
                cmp(a, b)
            for foreign in (None, 0, "Time[]{X-X-X X:X (X/X)}", ("T",), 1.5, object()):
                mon.events["foreign_compare"] += 1
                if (a == foreign) is not False or (a != foreign) is not True:
                    problems.append("%r compared equal to foreign operand %r" % (a, foreign))
        objs[:] = [o for o in objs if type(o).__name__ in ("Time", "Interval", "Duration")]
        key = "cross"
    elif k == "gold":
        golds = _gold_strings()[case["i"]:case["j"]]
        for g in golds:
            x = parse_nb_string(g)
            mon.events["gold_roundtrip"] += 1
            if x.nb_str() != g:
                problems.append("gold %r prints back as %r" % (g, x.nb_str()))
            objs.append(x)
            cmp(x, parse_nb_string(g))
        key = "gold/%d" % case["i"]
    elif k == "corpusgold":
        from ctparse.time.corpus import corpus
        from ctparse.time.auto_corpus import corpus as auto
        for target, _ts, _tests in list(corpus) + list(auto):
            x = parse_nb_string(target)
            mon.events["gold_roundtrip"] += 1
            if x.nb_str() != target:
                problems.append("corpus target %r prints back as %r" % (target, x.nb_str()))
            objs.append(x)
            cmp(x, parse_nb_string(target))
        key = "corpusgold"
    else:  # a real parse with the contracts on: the dedup tables' comparisons are observed
        from ctparse.time.corpus import corpus
        target, ts, tests = corpus[(case["i"] * 7) % len(corpus)]
        ts = datetime.strptime(ts, "%Y-%m-%dT%H:%M")
        n0 = mon.events["contract_eq"] + mon.events["contract_hash"]
        for t in tests[:2]:
            for p in L.ctparse_gen(t, ts=ts, timeout=0, max_stack_depth=0, latent_time=False):
                if p is not None and p.resolution is not None:
                    objs.append(p.resolution)
        mon.events["contract_evals_inside_search"] += mon.events["contract_eq"] + mon.events["contract_hash"] - n0
        # objects that went through the rules (and may have been built in unusual ways) against freshly built equal values
        from ..spec import grammar as G
        texts = [G.expression(r)[1] for j in range(25)]
        if case["i"] % 4 == 0:
            # values that rules special-case (12 am / 12 pm, midnight, hour 0, wrapped ranges) in every am/pm notation
            for cn, (fn, fl) in G.CLOCK.items():
                if fl.get("ampm"):
                    for h, mi in ((0, 0), (0, 30), (12, 0), (12, 15)):
                        t = fn(h, mi)
                        if t:
                            texts += [t, "after " + t, "until " + t, "tomorrow " + t]
            texts += ["midnight", "9-5", "23:00 - 3:00", "12:00 - 0:00", "halb eins", "quarter to 1"]
        for t in texts:
            for lat in (False, True):
                for p in L.ctparse_gen(t, ts=ts, timeout=0, latent_time=lat):
                    if p is None or p.resolution is None:
                        continue
                    o = p.resolution
                    try:
                        fresh = parse_nb_string(o.nb_str())
                    except Exception:
                        continue      # text-form problems are reported by the generic part below
                    mon.events["parsed_vs_rebuilt"] += 1
                    cmp(o, fresh)
                    if not (o == fresh) or hash(o) != hash(fresh):
                        problems.append("a resolution produced by the parser (%r from %r) and a freshly built equal value compare/hash differently: eq=%r hashes %r/%r" % (
                            o, t, o == fresh, hash(o), hash(fresh)))
        key = "parse/%d" % case["i"]

    # text form: injective on values, round-trips
    for o in objs:
        if type(o).__name__ not in ("Time", "Interval", "Duration"):
            continue
        v = (type(o).__name__, V.val(o))
        try:
            s = o.nb_str()
            back = parse_nb_string(s)
        except Exception as e:  # noqa
            problems.append("text form of %s does not parse back: %s: %s" % (V.show(V.val(o)), type(e).__name__, e))
            continue
        mon.events["nb_roundtrip"] += 1
        if (type(back).__name__, V.val(back)) != v:
            problems.append("round trip changes the value: %s -> %r -> %s" % (V.show(V.val(o)), s, V.show(V.val(back))))
        old = st["nb_table"].setdefault(s, v)
        if old != v:
            problems.append("text form %r is shared by two values: %r and %r" % (s, old, v))
    br = st["breaches"]
    nt = st["eq_true"] > 0 and st["eq_false"] > 0
    if br or problems:
        kinds = sorted(set(b[0] for b in br)) + (["text-form"] if problems else [])
        first = (br[0][1] if br else problems[0])
        tname = k if k != "time" else "time"
        return C.viol("%s/%s" % ("+".join(kinds), tname), "%d contract breaches, %d text-form problems; first: %s" % (len(br), len(problems), first), key, k)
    return C.ok(key, k, nt=nt or k in ("gold", "corpusgold", "parse"), obs_={"batch": key, "equal_pairs": st["eq_true"], "unequal_pairs": st["eq_false"]})


def post_check(results, summaries, events, rules, tier):
    if not events.get("contract_eq") or not events.get("contract_hash"):
        yield ("inconclusive", "the __eq__/__hash__ contracts were never evaluated (eq=%s hash=%s)" % (events.get("contract_eq"), events.get("contract_hash")))
    if not events.get("contract_evals_inside_search"):
        yield ("inconclusive", "no contract evaluation was observed inside a real parse (dedup tables)")
    if not events.get("nb_roundtrip") or not events.get("gold_roundtrip"):
        yield ("inconclusive", "no text-form round trip observed")
