"""C20 — date part and clock part compose: '<day> <time>' is that day at that
time.  Three executions per case (day alone, clock alone with latent off,
both); oracle: homomorphism."""
import zlib
from datetime import date, datetime, timedelta

from ..spec import cal, grammar as G, values as V
from . import common as C

TITLE = "day and clock compose"
LEVEL = "exploration"
RULE = ("case = (day form, day parameters, clock notation, hour, minute, order, connecting word, reference time); every "
        "day form x clock notation x both orders x {blank, at, um} is enumerated in every run (thorough: ~35 value/"
        "reference-time samples per combination, quick: 3). Oracle: result == (date the day expression alone resolves "
        "to, hour/minute the clock alone resolves to). non-trivial = all three executions returned a resolution; distinct "
        "on (text, reference time).")
ASSUMPTIONS = ["configuration D (timeout=0); configuration E only labels beam truncation",
               "excluded as the property states: a 12:xx clock time directly followed by German 'am <day>'; plus the clock "
               "notations' own exclusions (H.MM that is also a date, HHMM that is also a year) and month-name dates whose year "
               "reads as military time",
               "a case whose day expression or clock expression alone does not resolve as the grammar says is a C03-C06 matter "
               "and is counted inconclusive here"]

REFS = [datetime(2021, 3, 10, 12, 43, 30), datetime(2024, 2, 28, 23, 10), datetime(2019, 12, 31, 8, 0),
        datetime(2022, 7, 1, 0, 0), datetime(2026, 11, 30, 17, 5, 59)]


def gen_cases(tier, seed):
    r = C.rng(seed, "C20")
    cases = []
    per = 35 if tier == "thorough" else 3
    clocks = [n for n in G.CLOCK]
    for dn in G.DAY_FORMS:
        for cn in clocks:
            fn, fl = G.CLOCK[cn]
            for order in ("day-clock", "clock-day"):
                for conn in G.COMPOSE_CONN:
                    for _ in range(per):
                        for _try in range(30):
                            h, mi = r.randrange(24), r.choice([0, 0, 5, 15, 30, 45, r.randrange(60)])
                            if fn(h, mi) is not None:
                                break
                        else:
                            h, mi = r.randrange(24), 0
                        p = {"y": r.randrange(1990, 2030), "m": r.randrange(1, 13), "d": r.randrange(1, 29), "dow": r.randrange(7)}
                        cases.append({"dn": dn, "p": p, "cn": cn, "h": h, "mi": mi, "o": order, "c": conn,
                                      "ts": C.iso(r.choice(REFS))})
    # '<clock> in the <part of day>' is a clock notation too (C06): hours 1..11, +12 for the afternoon/evening/night family
    pods = [(w, True) for w in G.POD_PM if not w.startswith("am ")] + [(w, False) for w in G.POD_AM if not w.startswith("am ")]
    for dn in G.DAY_FORMS:
        for form in ("h:MM", "h uhr", "h.MM uhr"):
            for order in ("day-clock", "clock-day"):
                for conn in G.COMPOSE_CONN:
                    for _ in range(max(1, per // 3)):
                        w, pm = r.choice(pods)
                        h12, mi = r.randrange(1, 12), (r.choice([0, 15, 30, 45]) if form != "h uhr" else 0)
                        p = {"y": r.randrange(1990, 2030), "m": r.randrange(1, 13), "d": r.randrange(1, 29), "dow": r.randrange(7)}
                        cases.append({"dn": dn, "p": p, "cn": "pod/" + form, "pod": w, "h12": h12, "h": h12 + 12 if pm else h12, "mi": mi, "o": order, "c": conn,
                                      "ts": C.iso(r.choice(REFS))})
    # clock notations written in words (C06 counts them among the notations): midnight, named hours, spoken quarter/half
    words = []
    for w in G.MIDNIGHT:
        words.append(("word/midnight", w, 0, 0))
    for i in range(12):
        for w in (G.HOUR_EN[i] + " o'clock", G.HOUR_DE[i] + " uhr"):
            words.append(("word/named", w, i + 1, 0))
    for pre, (dh, mm) in G.SPOKEN.items():
        for h in (1, 5, 6, 9, 12, 17, 23):
            hf = G.SPOKEN_HOUR_FORMS[("d", "d uhr", "d o'clock")[(h + len(pre)) % 3]]
            words.append(("word/spoken", "%s %s" % (pre, hf(h)), (h + dh) % 24, mm))
    for dn in G.DAY_FORMS:
        for order in ("day-clock", "clock-day"):
            for conn in G.COMPOSE_CONN:
                for cn, ct, h, mi in (words if tier == "thorough" else r.sample(words, 4)):
                    # day parameters and reference time are a fixed function of the combination (not of the seed): the
                    # thorough tier enumerates this family completely, the quick tier replays a seeded subset of the SAME
                    # cases, so the set of beam-truncation families it can meet is closed
                    hsh = zlib.crc32(("%s|%s|%s|%s" % (dn, ct, order, conn)).encode("utf-8"))
                    p = {"y": 1990 + hsh % 40, "m": 1 + (hsh >> 6) % 12, "d": 1 + (hsh >> 10) % 28, "dow": (hsh >> 15) % 7}
                    cases.append({"dn": dn, "p": p, "cn": cn, "ct": ct, "h": h, "mi": mi, "o": order, "c": conn, "ts": C.iso(REFS[(hsh >> 18) % len(REFS)])})
    # the clock's boundary values with every day form: first and last minute of the day, noon and its neighbours
    for dn in G.DAY_FORMS:
        for cn in ("H:MM", "HH:MM", "HH:MM Uhr", "h:MM am", "HhMM"):
            for (h, mi) in ((0, 0), (0, 1), (23, 59), (23, 0), (12, 0), (11, 59), (12, 59), (13, 0)):
                for order in ("day-clock", "clock-day"):
                    hsh = zlib.crc32(("%s|%s|%d:%d|%s" % (dn, cn, h, mi, order)).encode("utf-8"))
                    if tier != "thorough" and (hsh + seed) % 3:
                        continue
                    p = {"y": 1990 + hsh % 40, "m": 1 + (hsh >> 6) % 12, "d": 1 + (hsh >> 10) % 28, "dow": (hsh >> 15) % 7}
                    cases.append({"dn": dn, "p": p, "cn": cn, "h": h, "mi": mi, "o": order, "c": ("_", "at", "um")[hsh % 3], "ts": C.iso(REFS[(hsh >> 18) % len(REFS)])})
    # every weekday spelling (abbreviations with and without the dot, supported typos) next to a few clocks: fixed cases
    for wi, ws in enumerate(G.DOW):
        for w in ws:
            for dn in G.DAY_FORMS_SPELLED:
                if (dn == "dow/am spelled") != (w in G.DOW_DE_SPELLINGS):
                    if dn != "dow/spelled":
                        continue
                for cn, h, mi in (("H Uhr", 17, 0), ("H:MM", 9, 15), ("ham", 17, 0), ("HH:MM", 17, 30)):
                    for order in ("day-clock", "clock-day"):
                        for conn in G.COMPOSE_CONN:
                            hsh = zlib.crc32(("%s|%s|%s|%s|%s" % (w, dn, cn, order, conn)).encode("utf-8"))
                            if tier != "thorough" and (hsh + seed) % 4:
                                continue
                            cases.append({"dn": dn, "p": {"w": w, "dow": wi, "y": 2021, "m": 1, "d": 1}, "cn": cn, "h": h, "mi": mi, "o": order, "c": conn,
                                          "ts": C.iso(REFS[hsh % len(REFS)])})
    # the rarer connecting words ('tomorrow around 5pm', 'morgen gegen 17 uhr') with every day form and four clocks: fixed cases
    for dn in G.DAY_FORMS:
        for conn in G.COMPOSE_CONN_MORE:
            for cn, h, mi in (("H Uhr", 17, 0), ("H:MM", 9, 15), ("ham", 17, 0), ("HH:MM", 17, 30)):
                for order in ("day-clock", "clock-day"):
                    hsh = zlib.crc32(("%s|%s|%s|%s" % (dn, conn, cn, order)).encode("utf-8"))
                    if tier != "thorough" and (hsh + seed) % 4:
                        continue
                    p = {"y": 1990 + hsh % 40, "m": 1 + (hsh >> 6) % 12, "d": 1 + (hsh >> 10) % 28, "dow": (hsh >> 15) % 7}
                    cases.append({"dn": dn, "p": p, "cn": cn, "h": h, "mi": mi, "o": order, "c": conn, "ts": C.iso(REFS[(hsh >> 18) % len(REFS)])})
    r.shuffle(cases)
    return cases


def run_case(case, ctx):
    ts = C.parse_ts(case["ts"])
    p = case["p"]
    day = (G.DAY_FORMS.get(case["dn"]) or G.DAY_FORMS_SPELLED[case["dn"]])(p)
    if case["cn"].startswith("pod/"):
        fn0, fl = G.POD_CLOCK[case["cn"][4:]]
        clock = "%s %s" % (fn0(case["h12"], case["mi"]), case["pod"])
        fn = None
    elif case["cn"].startswith("word/"):
        clock, fl, fn = case["ct"], {"hour_only": case["cn"] == "word/named"}, None
    else:
        fn, fl = G.CLOCK[case["cn"]]
        clock = fn(case["h"], case["mi"])
    conn = G.COMPOSE_CONN.get(case["c"]) or G.COMPOSE_CONN_MORE[case["c"]]
    if case["o"] == "day-clock":
        text = day + conn + clock
    else:
        text = (conn.lstrip() if case["c"] != "_" else "") + clock + " " + day
    key = "%s|%s" % (text, case["ts"])
    dclass = case["dn"].split("/")[0]
    cls = "%s|%s|%s|%s" % (case["dn"], case["cn"], case["o"], case["c"])
    ex = fl.get("exclude")
    if ex and ex(case["h"], case["mi"]):
        return {"st": "excl", "sig": "clock-notation:" + ex(case["h"], case["mi"]), "key": key, "cls": cls}
    if case["dn"].startswith("abs/") and "M" in case["dn"] and G.reads_as_military(p["y"]):
        return {"st": "excl", "sig": "named-month-notation:year-reads-as-military-time", "key": key, "cls": cls}
    if case["cn"] == "h.MM am" and 1 <= case["mi"] <= 12 and case["o"] == "clock-day":
        # 'at 1.05 am friday': the library's dd.mm rule explicitly allows 'dd.mm am' (German 'am' = on)
        return {"st": "excl", "sig": "h.MM am + day: also 'dd.mm' followed by German 'am <day>'", "key": key, "cls": cls}
    if case["o"] == "clock-day" and (case["h"] in (0, 12)) and day.startswith("am ") and clock.startswith("12") \
            and case["cn"] not in ("HH:MM Uhr", "H:MMuhr", "H:MMh", "H:MM h", "H.MM Uhr", "H Uhr", "Huhr", "Hh", "H h"):
        # (with a clock word between the digits and 'am' - '12:30 Uhr am Freitag' - the 'am' is not *directly* after the
        # clock time and the library reads it as the German preposition; the four-digit forms stay excluded)
        return {"st": "excl", "sig": "12:xx-followed-by-german-am", "key": key, "cls": cls}
    if case["o"] == "clock-day" and case["cn"].startswith("word/") and day.startswith("am ") and clock.endswith(" 12"):
        # 'quarter past 12 am freitag': the same '12 am' ambiguity, with the hour at the end of a spoken form
        return {"st": "excl", "sig": "12:xx-followed-by-german-am", "key": key, "cls": cls}
    rd = C.api(ctx, day, ts)
    dv = C.resv(rd)
    rc = C.api(ctx, clock, ts, latent_time=False)
    cv = C.resv(rc)
    if not (dv and dv[0] == "T" and V.dated(dv) and dv[4] is None and dv[5] is None):
        return {"st": "inconc", "msg": "day expression %r alone gives %s" % (day, V.show(dv))}
    if not (cv and cv[0] == "T" and cv[4] == case["h"] and (cv[5] or 0) == case["mi"] and cv[1] is None):
        return {"st": "inconc", "msg": "clock expression %r alone gives %s" % (clock, V.show(cv))}
    exp = V.T(dv[1], dv[2], dv[3], case["h"], case["mi"])
    exps = [exp] + ([V.T(dv[1], dv[2], dv[3], case["h"])] if fl.get("hour_only") else [])
    r = C.api(ctx, text, ts)
    got = C.resv(r)
    if got in exps:
        return C.ok(key, cls, nt=True, obs_={"text": text, "ts": case["ts"], "day_alone": V.show(dv), "clock_alone": V.show(cv), "got": V.show(got)})
    if got is None or got[0] != "T":
        what = "not-a-time"
    elif V.dated(got) and V.t_date(got) != V.t_date(exp):
        what = "day-moved"
    elif got[4] is None:
        what = "clock-dropped"
    elif not V.dated(got):
        what = "day-dropped"
    else:
        what = "clock-changed"
    try:
        e_ok = C.resv(C.api(ctx, text, ts, max_stack_depth=0)) in exps
    except Exception:
        e_ok = False
    dcls = case["dn"].split("/")[0]
    if dcls == "abs":
        dcls = "abs-named" if "Mon" in case["dn"] else "abs-numeric"
    fam = "%s/%s" % (dcls, _cfam(case["cn"]))
    sig = ("beam-truncation/" + fam) if e_ok else "wrong/%s/%s" % (fam, what)
    return C.viol(sig, "%r at %s: day alone %s, clock alone %s, together %s via %s" % (text, ts, V.show(dv), V.show(cv), V.show(got), C.obs(r)), key, cls)


def _cfam(cn):
    if cn.startswith("pod/"):
        return "pod-clock"
    if cn.startswith("word/"):
        return cn
    fl = G.CLOCK[cn][1]
    if fl.get("military"):
        return "military"
    if fl.get("ampm"):
        return "ampm"
    if fl.get("hour_only"):
        return "oclock"
    return "24h"


def post_check(results, summaries, events, rules, tier):
    if not events.get("api_return"):
        yield ("inconclusive", "API monitor observed no call")
    need = ["ruleDateTOD", "ruleTODDate", "ruleAbsorbOnTime"]
    silent = [n for n in need if not rules.get(n)]
    if silent:
        yield ("inconclusive", "rules never observed to fire: %s" % silent)
