"""C17 — training data are truthful: one sample per trace prefix, labelled by
value; duplicating a positive example never lowers its score.  Tee under the
dataset builders (bound in ctparse.corpus) + conservation oracle."""
import json
import os
from datetime import datetime

from .. import env
from ..spec import grammar as G, nb_ref, values as V
from . import common as C

TITLE = "training data truthful"
LEVEL = "exploration"
RULE = ("case kinds: dataset = a chunk of entries of the bundled dataset run through make_partial_rule_dataset with a tee on "
        "the candidate stream it consumes: emitted samples == per candidate, in order, every non-empty prefix of its "
        "production, all labelled by value equality with the gold (spans ignored, independent value model); corpus = a "
        "chunk of the bundled corpus through run_corpus with the same oracle; generated = entries of every result type "
        "(Time, Interval, Duration) whose gold is the value of a real candidate or a perturbed one; monotone = a random "
        "training set in which a random positive example is duplicated k times: the retrained model's log-odds for that "
        "trace never go down (1e-9). non-trivial = at least one positive and one negative sample (dataset kinds) / a "
        "strict increase observed (monotone); distinct on the case id.")
ASSUMPTIONS = ["timeout=0, max_stack_depth=10 for the dataset builder (its own arguments), exhaustive search inside run_corpus as it hard-codes",
               "monotonicity is a theorem for a correct Laplace-smoothed model (Gibbs' inequality), so a breach indicts the estimator"]
WATCHDOG_S = {"quick": 1200, "thorough": 7200}


def _dataset():
    with open(os.path.join(env.REPO, "datasets", "timeparse_corpus.json"), encoding="utf-8") as fd:
        return json.load(fd)


def gen_cases(tier, seed):
    from ..attach import lib
    lib()
    from ctparse.time.corpus import corpus
    r = C.rng(seed, "C17")
    ds = _dataset()
    idx = list(range(len(ds)))
    if tier != "thorough":
        idx = sorted(r.sample(idx, 160))
    cases = [{"k": "dataset", "idx": idx[a:a + 8]} for a in range(0, len(idx), 8)]
    cidx = list(range(len(corpus)))
    if tier != "thorough":
        cidx = sorted(r.sample(cidx, 40))
    cases += [{"k": "corpus", "idx": cidx[a:a + 4]} for a in range(0, len(cidx), 4)]
    for i in range(300 if tier == "thorough" else 40):
        cases.append({"k": "generated", "i": i})
    # batches in which the SAME text recurs with other reference times (and other golds): 43 texts of the bundled dataset do
    bytext = {}
    for i, e in enumerate(ds):
        bytext.setdefault(e["text"], []).append(i)
    rep = [v for v in bytext.values() if len(set(ds[i]["ref_time"] for i in v)) > 1]
    for v in (rep if tier == "thorough" else rep[:15]):
        cases.append({"k": "dataset", "idx": v[:6], "rep": True})
    for i in range(120 if tier == "thorough" else 25):
        cases.append({"k": "repeated", "i": i})
    for i in range(3000 if tier == "thorough" else 300):
        cases.append({"k": "monotone", "i": i})
    return cases


def setup_worker(ctx):
    """tee on the stream the builders consume (the name bound in ctparse.corpus)"""
    import ctparse.corpus as CC
    st = ctx["c17"] = {"calls": []}
    CC.tqdm = lambda x, **k: x
    orig = getattr(CC, "ctparse_gen", None)
    if orig is None:
        # the builders reach the stream under another name: the tee (coverage information only - the expectations come
        # from streams this check opens itself) cannot be attached
        ctx["mon"].events["tee_unavailable"] += 1
        return

    def tee(*a, **k):
        rec = {"args": a, "kw": k, "cands": []}
        st["calls"].append(rec)
        for p in orig(*a, **k):
            if p is not None:
                rec["cands"].append((V.val(p.resolution), type(p.resolution).__name__, [str(x) for x in p.production]))
            ctx["mon"].events["tee_candidate"] += 1
            yield p

    CC.ctparse_gen = tee
    CC.tqdm = lambda x, **k: x


def _own_candidates(L, text, ts, **kw):
    """the candidates of one entry, from our own call of the real stream with the builder's arguments (independent of
    which streams the builder chose to consume)"""
    out = []
    for p in L.m.ctparse_gen(text, ts, **kw):
        if p is not None:
            out.append((V.val(p.resolution), type(p.resolution).__name__, [str(x) for x in p.production]))
    return out


def _expected_samples(cands, is_pos):
    out = []
    for v, kind, prod in cands:
        y = is_pos(v, kind)
        for i in range(1, len(prod) + 1):
            out.append((prod[:i], y))
    return out


def _compare(emitted, expected, what):
    if emitted == expected:
        return None
    if [e[0] for e in emitted] == [e[0] for e in expected]:
        bad = [(a, b) for a, b in zip(emitted, expected) if a[1] != b[1]]
        return ("label", "%s: %d of %d samples mislabelled; e.g. trace %s emitted %r, value equality says %r" % (what, len(bad), len(expected), bad[0][0][0][-3:], bad[0][0][1], bad[0][1][1]))
    if len(emitted) != len(expected):
        return ("conservation", "%s: %d samples emitted, %d expected (one per non-empty prefix of every candidate's production)" % (what, len(emitted), len(expected)))
    return ("conservation-order", "%s: samples differ in content/order" % what)


def run_case(case, ctx):
    L, mon, st = ctx["L"], ctx["mon"], ctx["c17"]
    import ctparse.corpus as CC
    from ctparse.scorer import DummyScorer
    k = case["k"]
    st["calls"][:] = []
    if k == "dataset":
        ds = _dataset()
        raw = [ds[i] for i in case["idx"]]
        entries = [CC.TimeParseEntry(text=e["text"], ts=datetime.strptime(e["ref_time"], "%Y-%m-%dT%H:%M:%S"), gold=CC.parse_nb_string(e["gold_parse"])) for e in raw]
        key = "dataset/%d%s" % (case["idx"][0], "/repeated-text" if case.get("rep") else "")
        emitted = [(list(X), bool(y)) for X, y in CC.make_partial_rule_dataset(entries, scorer=DummyScorer(), timeout=0, max_stack_depth=10)]
        mon.events["builder_streams_consumed"] += len(st["calls"])
        expected = []
        for e in entries:
            gv, gk = V.val(e.gold), type(e.gold).__name__
            cands = _own_candidates(L, e.text, e.ts, relative_match_len=1.0, timeout=0, max_stack_depth=10, scorer=DummyScorer(), latent_time=False)
            expected += _expected_samples(cands, lambda v, kind: kind == gk and v == gv)
        mon.events["samples_checked"] += len(emitted)
        bad = _compare(emitted, expected, "make_partial_rule_dataset")
        npos = sum(1 for s in expected if s[1])
        if bad:
            gold_kinds = sorted(set(type(e.gold).__name__ for e in entries))
            return C.viol("dataset/" + bad[0], bad[1] + " (gold kinds %s)" % gold_kinds, key, "dataset")
        return C.ok(key, "dataset", nt=npos > 0 and npos < len(expected), obs_={"entries": len(entries), "candidates": sum(len(r["cands"]) for r in st["calls"]), "samples": len(emitted), "positive": npos})
    if k == "corpus":
        from ctparse.time.corpus import corpus
        items = [corpus[i] for i in case["idx"]]
        key = "corpus/%d" % case["idx"][0]
        try:
            Xs, ys = CC.run_corpus(items)
        except Exception as e:  # noqa
            if "corpus has errors" in str(e):
                return {"st": "skip", "sig": "bundled corpus target not produced (run_corpus's own failure mode, test_run_corpus)", "key": key, "cls": "corpus"}
            raise
        emitted = [(list(X), bool(y)) for X, y in zip(Xs, ys)]
        expected = []
        ci = 0
        for target, ts, tests in items:
            g = CC.parse_nb_string(target)
            gv, gk = V.val(g), type(g).__name__
            tsd = datetime.strptime(ts, "%Y-%m-%dT%H:%M")
            for t in tests:
                cands = _own_candidates(L, t, tsd, relative_match_len=1.0, timeout=0, max_stack_depth=0, scorer=DummyScorer(), latent_time=False)
                expected += _expected_samples(cands, lambda v, kind: kind == gk and v == gv)
        mon.events["builder_streams_consumed"] += len(st["calls"])
        if True:
            if True:
                pass
        mon.events["samples_checked"] += len(emitted)
        bad = _compare(emitted, expected, "run_corpus")
        npos = sum(1 for s in expected if s[1])
        if bad:
            return C.viol("corpus/" + bad[0], bad[1], key, "corpus")
        return C.ok(key, "corpus", nt=npos > 0 and npos < len(expected), obs_={"targets": len(items), "samples": len(emitted), "positive": npos})
    if k == "repeated":
        # one reference-time dependent expression several times in ONE builder call, each with the gold that is right for ITS reference time
        r = C.rng(ctx["seed"], "C17r", case["i"])
        text = r.choice(["tomorrow", "heute", "friday", "morgen 18 Uhr", "übermorgen", "5.3.", "the 5th", "next monday", "yesterday", "am freitag um 8",
                         "end of month", "monday 9-5", "tomorrow 8pm"])
        tss = r.sample([datetime(2019, 12, 31, 8), datetime(2020, 2, 28, 23, 10), datetime(2021, 3, 10, 12, 43), datetime(2022, 7, 1), datetime(2024, 2, 29, 9)], 3)
        if case["i"] % 3 == 2:
            # ... and under reference times that share the DAY: expressions whose candidates depend on the time of day
            text = r.choice(["now", "jetzt", "abends", "evening", "morning", "this morning", "nachmittags", "right now", "morgens", "night"])
            d0 = r.choice([datetime(2020, 2, 25), datetime(2021, 3, 10), datetime(2023, 12, 31)])
            tss = [d0.replace(hour=h, minute=m) for h, m in r.sample([(5, 10), (12, 43), (21, 40), (0, 0), (17, 5), (23, 59)], 3)]
            if case["i"] % 2 == 0:
                # the same minute twelve hours apart (a key built with a 12-hour clock, or one that drops the hour)
                h0, m0 = r.choice([(9, 15), (5, 0), (0, 30), (11, 59)])
                tss = [d0.replace(hour=h0, minute=m0), d0.replace(hour=h0 + 12, minute=m0), d0.replace(hour=(h0 + 6) % 24, minute=m0)]
        entries = []
        for ts in tss:
            cands = [p for p in L.ctparse_gen(text, ts=ts, timeout=0, max_stack_depth=10, latent_time=False) if p is not None]
            if not cands:
                continue
            best = max(cands, key=lambda p: p.score)
            import copy
            entries.append(CC.TimeParseEntry(text=text, ts=ts, gold=copy.deepcopy(best.resolution)))
        key = "repeated/%d" % case["i"]
        if len(entries) < 2:
            return {"st": "skip", "sig": "expression does not resolve", "key": key, "cls": "repeated"}
        st["calls"][:] = []
        emitted = [(list(X), bool(y)) for X, y in CC.make_partial_rule_dataset(entries, scorer=DummyScorer(), timeout=0, max_stack_depth=10)]
        expected = []
        for e in entries:
            gv, gk = V.val(e.gold), type(e.gold).__name__
            cands = _own_candidates(L, e.text, e.ts, relative_match_len=1.0, timeout=0, max_stack_depth=10, scorer=DummyScorer(), latent_time=False)
            expected += _expected_samples(cands, lambda v, kind: kind == gk and v == gv)
        mon.events["samples_checked"] += len(emitted)
        mon.events["builder_streams_consumed"] += len(st["calls"])
        bad = _compare(emitted, expected, "make_partial_rule_dataset (same text %r under %d reference times in one call)" % (text, len(entries)))
        npos = sum(1 for s_ in expected if s_[1])
        if bad:
            return C.viol("repeated/" + bad[0], bad[1], key, "repeated")
        return C.ok(key, "repeated", nt=npos > 0, obs_={"text": text, "reference_times": [str(t) for t in tss], "samples": len(emitted), "positive": npos})
    if k == "generated":
        r = C.rng(ctx["seed"], "C17g", case["i"])
        ts = datetime(2021, 3, 10, 12, 43, 30)
        entries = []
        want = ["Time", "Interval", "Duration"][case["i"] % 3]
        tries = 0
        while len(entries) < 4 and tries < 60:
            tries += 1
            kind = {"Time": ["clock", "date", "dayclock", "rel"], "Interval": ["range", "halfopen", "for"], "Duration": ["dur"]}[want]
            c, t = G.expression(r)
            if c.split("/")[0] not in kind:
                continue
            cands = [p for p in L.ctparse_gen(t, ts=ts, timeout=0, latent_time=False) if p is not None]
            cands = [p for p in cands if type(p.resolution).__name__ == want]
            if not cands:
                continue
            gold = r.choice(cands).resolution
            import copy
            gold = copy.deepcopy(gold)
            gold.mstart, gold.mend = 90, 99          # the gold carries no meaningful span
            if r.random() < 0.3:                      # a gold no candidate equals
                if want == "Duration":
                    gold = L.Duration(gold.value + 1000, gold.unit)
                elif want == "Time":
                    gold = L.Time(year=1066, month=10, day=14)
                else:
                    gold = L.Interval(t_from=L.Time(year=1066, month=10, day=14), t_to=None)
            entries.append(CC.TimeParseEntry(text=t, ts=ts, gold=gold))
        key = "generated/%d" % case["i"]
        if not entries:
            return {"st": "skip", "sig": "no %s expression generated" % want, "key": key, "cls": "generated"}
        st["calls"][:] = []
        emitted = [(list(X), bool(y)) for X, y in CC.make_partial_rule_dataset(entries, scorer=DummyScorer(), timeout=0, max_stack_depth=10)]
        expected = []
        for e in entries:
            gv, gk = V.val(e.gold), type(e.gold).__name__
            cands = _own_candidates(L, e.text, e.ts, relative_match_len=1.0, timeout=0, max_stack_depth=10, scorer=DummyScorer(), latent_time=False)
            expected += _expected_samples(cands, lambda v, kind: kind == gk and v == gv)
        mon.events["samples_checked"] += len(emitted)
        mon.events["builder_streams_consumed"] += len(st["calls"])
        bad = _compare(emitted, expected, "make_partial_rule_dataset (generated %s golds)" % want)
        npos = sum(1 for s in expected if s[1])
        if bad:
            return C.viol("generated/%s/%s" % (want, bad[0]), bad[1], key, "generated/" + want)
        return C.ok(key, "generated/" + want, nt=npos > 0, obs_={"kind": want, "entries": [e.text for e in entries], "samples": len(emitted), "positive": npos})
    # monotone retraining
    from ctparse.nb_scorer import train_naive_bayes
    r = C.rng(ctx["seed"], "C17m", case["i"])
    toks = ["%d" % x for x in r.sample(range(100, 141), r.randrange(2, 8))] + r.sample(["ruleHHMM", "ruleDOM1", "ruleDateTOD", "ruleNamedDOW", "ruleLatentDOW"], r.randrange(1, 4))
    docs, ys = [], []
    for _ in range(r.randrange(3, 40)):
        docs.append([r.choice(toks) for _ in range(r.randrange(1, 7))])
        ys.append(r.random() < 0.5)
    ys[0], ys[1] = True, False
    j = r.choice([i for i, y in enumerate(ys) if y])
    d = docs[j]

    def logodds(dd, yy):
        p = train_naive_bayes(dd, yy).predict_log_proba([d])[0]
        return p[1] - p[0]

    prev = logodds(docs, ys)
    base = prev
    key = "monotone/%d" % case["i"]
    for kdup in (1, 2, 5, 20):
        dd = docs + [list(d)] * kdup
        yy = ys + [True] * kdup
        cur = logodds(dd, yy)
        mon.events["retrain_compared"] += 1
        if cur < prev - 1e-9:
            ref_prev = nb_ref.RefNB(docs, ys).log_odds(d)
            return C.viol("monotone/score-went-down", "duplicating positive example %r %d times lowered its log-odds from %r to %r (training set of %d docs; textbook model before: %r)" % (
                d, kdup, prev, cur, len(docs), ref_prev), key, "monotone")
        prev = cur
    return C.ok(key, "monotone", nt=prev > base + 1e-12, obs_={"docs": len(docs), "example": d, "log_odds_before": base, "after_20_copies": prev})


def post_check(results, summaries, events, rules, tier):
    need = ("samples_checked", "retrain_compared") + (() if events.get("tee_unavailable") else ("tee_candidate",))
    miss = [k for k in need if not events.get(k)]
    if miss:
        yield ("inconclusive", "events never observed: %s" % miss)
