"""C06 — every clock notation of one time of day resolves to that hour and
minute; latent anchoring gives the first such time strictly after the reference
minute.  Exhaustive over 1440 minutes x notations in both tiers."""
from datetime import date, datetime, timedelta

from ..spec import cal, grammar as G, values as V
from . import common as C

TITLE = "clock notations"
LEVEL = "exploration"
EXHAUSTIVE = {"quick": True, "thorough": True}
RULE = ("case = (notation, hour, minute, latent on/off, reference time); every one of the 1440 minutes x every digit "
        "notation to which it applies (exhaustive, both tiers), named hours x suffixes, spoken quarter/half x every hour "
        "x hour form, '<clock> in the <part of day>' for hours 1..11; latent on: reference times one minute before, "
        "equal to (with and without seconds) and one minute after the requested minute on month/year ends and 28/29 Feb "
        "(thorough: every minute; quick: stratified). non-trivial = resolution returned and a rule fired; distinct on "
        "(notation, text, latent, reference time).")
ASSUMPTIONS = ["configuration D (timeout=0)",
               "an 'H o'clock' resolution may leave the minute unspecified (read as :00)",
               "excluded with the competing reading recorded: H.MM that is also a dd.mm date, HHMM that is also a year "
               "19xx/200x-202x (static family; the family HHMM/yearlike decides these numbers too, under reference times of the "
               "neighbouring years, and excludes only what the library's documented heuristic reads as a year: the reference year "
               "and the year three months ahead), bare digit + part of day, 'am morgen'"]

REF0 = datetime(2021, 3, 10, 12, 43, 30)
ANCHOR_DATES = [date(2019, 12, 31), date(2020, 2, 28), date(2020, 2, 29), date(2021, 2, 28), date(2022, 4, 30),
                date(2023, 1, 31), date(2024, 12, 31), date(2025, 7, 15)]


def _static_cases():
    """latent off: (notation, text, h, m, hour_only)"""
    out = []
    for name, (fn, fl) in G.CLOCK.items():
        for h in range(24):
            for m in range(60):
                t = fn(h, m)
                if t is None:
                    continue
                ex = fl.get("exclude")
                out.append({"n": name, "f": t, "h": h, "m": m, "ho": bool(fl.get("hour_only")),
                            "x": ex(h, m) if ex else None})
    for i in range(12):
        for w in (G.HOUR_EN[i], G.HOUR_DE[i]) + (("ein",) if i == 0 else ()):
            for suf in G.NAMED_HOUR_SUFFIX:
                out.append({"n": "named" + suf, "f": w + suf, "h": i + 1, "m": 0})
    for w in G.MIDNIGHT:
        out.append({"n": "midnight", "f": w, "h": 0, "m": 0})
    for pre, (dh, mm) in G.SPOKEN.items():
        for hf, fn in G.SPOKEN_HOUR_FORMS.items():
            for h in range(24):
                out.append({"n": "spoken/%s/%s" % (pre, hf), "f": "%s %s" % (pre, fn(h)), "h": (h + dh) % 24, "m": mm})
        for i in range(12):
            for w in (G.HOUR_EN[i], G.HOUR_DE[i]):
                out.append({"n": "spoken/%s/named" % pre, "f": "%s %s" % (pre, w), "h": (i + 1 + dh) % 24, "m": mm})
    for cn, (fn, fl) in G.POD_CLOCK.items():
        for h in range(1, 12):
            for m in (0, 5, 30, 47, 59):
                c = fn(h, m)
                if c is None:
                    continue
                for p in G.POD_PM_MOD:
                    if not (fl.get("no_am_pod") and p.startswith("am ")):
                        out.append({"n": "pod-pm-mod/%s" % cn, "f": "%s %s" % (c, p), "h": h + 12, "m": m, "ho": bool(fl.get("hour_only"))})
                for p in G.POD_AM_MOD:
                    out.append({"n": "pod-am-mod/%s" % cn, "f": "%s %s" % (c, p), "h": h, "m": m, "ho": bool(fl.get("hour_only"))})
                for p in G.POD_PM:
                    if fl.get("no_am_pod") and p.startswith("am "):
                        continue
                    out.append({"n": "pod-pm/%s" % cn, "f": "%s %s" % (c, p), "h": h + 12, "m": m, "ho": bool(fl.get("hour_only"))})
                    out.append({"n": "pod-pm-rev/%s" % cn, "f": "%s %s" % (p, c), "h": h + 12, "m": m, "ho": bool(fl.get("hour_only"))})
                for p in G.POD_AM:
                    if fl.get("no_am_pod") and p.startswith("am "):
                        continue
                    out.append({"n": "pod-am/%s" % cn, "f": "%s %s" % (c, p), "h": h, "m": m, "ho": bool(fl.get("hour_only"))})
                    out.append({"n": "pod-am-rev/%s" % cn, "f": "%s %s" % (p, c), "h": h, "m": m, "ho": bool(fl.get("hour_only"))})
    return out


LATENT_NOTATIONS = ["HH:MM", "H:MM", "HhMM", "HH:MM Uhr", "H:MMh", "h:MMam", "h:MM am", "h:MM a.m.", "H Uhr", "Hh",
                    "H o'clock", "ham", "HHMM Uhr"]


def gen_cases(tier, seed):
    r = C.rng(seed, "C06")
    cases = []
    for c in _static_cases():
        c = dict(c, lat=0, ts=C.iso(REF0))
        cases.append(c)
    # latent anchoring
    step = 1 if tier == "thorough" else 7
    k = r.randrange(step)
    for name in LATENT_NOTATIONS:
        fn, fl = G.CLOCK[name]
        for h in range(24):
            for m in range(60):
                k += 1
                t = fn(h, m)
                if t is None:
                    continue
                if fl.get("exclude") and fl["exclude"](h, m):
                    continue
                if m != 0 and k % step:
                    continue
                d = ANCHOR_DATES[(h * 60 + m + k) % len(ANCHOR_DATES)]
                req = datetime(d.year, d.month, d.day, h, m)
                refs = [req - timedelta(minutes=1), req - timedelta(microseconds=1), req, req + timedelta(seconds=30),
                        req + timedelta(minutes=1), datetime(d.year, d.month, d.day, 23, 59, 59, 999999),
                        datetime(d.year, d.month, d.day, 0, 0, 0)]
                for ref in (refs if (tier == "thorough" or m == 0) else r.sample(refs, 3)):
                    cases.append({"n": name, "f": t, "h": h, "m": m, "ho": bool(fl.get("hour_only")), "lat": 1, "ts": C.iso(ref)})
    # named hours and midnight under anchoring
    for i in range(12):
        for w in (G.HOUR_EN[i], G.HOUR_DE[i]):
            d = ANCHOR_DATES[i % len(ANCHOR_DATES)]
            req = datetime(d.year, d.month, d.day, i + 1, 0)
            for ref in (req - timedelta(minutes=1), req, req + timedelta(minutes=1)):
                cases.append({"n": "named/latent", "f": w + " uhr", "h": i + 1, "m": 0, "lat": 1, "ts": C.iso(ref)})
    # spoken quarter/half and '<clock> in the <part of day>' under anchoring
    for pre, (dh, mm) in G.SPOKEN.items():
        for h in range(24):
            if tier != "thorough" and (h + len(pre)) % 4:
                continue
            d = ANCHOR_DATES[(h + len(pre)) % len(ANCHOR_DATES)]
            hh = (h + dh) % 24
            req = datetime(d.year, d.month, d.day, hh, mm)
            for ref in (req - timedelta(minutes=1), req, req + timedelta(minutes=1)):
                cases.append({"n": "spoken/%s/latent" % pre, "f": "%s %d uhr" % (pre, h), "h": hh, "m": mm, "lat": 1, "ts": C.iso(ref)})
    for p in G.POD_PM + G.POD_AM:
        for h in (1, 6, 11):
            pm = p in G.POD_PM
            d = ANCHOR_DATES[(h + len(p)) % len(ANCHOR_DATES)]
            hh = h + 12 if pm else h
            req = datetime(d.year, d.month, d.day, hh, 30)
            for ref in (req - timedelta(minutes=1), req, req + timedelta(minutes=1)):
                cases.append({"n": "pod-clock/latent", "f": "%d:30 %s" % (h, p), "h": hh, "m": 30, "lat": 1, "ts": C.iso(ref)})
    for w in G.MIDNIGHT:
        for d in ANCHOR_DATES:
            for ref in (datetime(d.year, d.month, d.day, 0, 0), datetime(d.year, d.month, d.day, 23, 59, 59), datetime(d.year, d.month, d.day, 0, 1)):
                cases.append({"n": "midnight/latent", "f": w, "h": 0, "m": 0, "lat": 1, "ts": C.iso(ref)})
    # four digits that are also a year: the library's documented heuristic prefers the year reading only when the number is
    # the reference year or the year three months ahead; everywhere else 'HHMM' is a clock notation like the others, so the
    # blanket 'also-a-year' exclusion of the static family is narrowed here to exactly those reference times
    for y in list(range(1900, 1960, 5)) + list(range(2000, 2030, 5)):
        h, m = divmod(y, 100)
        refs = [REF0, datetime(2024, 3, 10, 9, 0)]
        for Y in (y - 1, y, y + 1):
            refs += [datetime(Y, 1, 1, 0, 0), datetime(Y, 3, 10, 9, 0), datetime(Y, 9, 30, 23, 59), datetime(Y, 10, 1, 0, 0),
                     datetime(Y, 12, 31, 23, 59)]
        for ref in refs:
            y3 = ref.year + (1 if ref.month >= 10 else 0)       # the year three months after the reference time
            x = "also-a-year" if y in (ref.year, y3) else None
            for lat in (0, 1):
                cases.append({"n": "HHMM/yearlike", "f": "%04d" % y, "h": h, "m": m, "ho": False, "lat": lat, "ts": C.iso(ref), "x": x})
    r.shuffle(cases)
    return cases


def run_case(case, ctx):
    ts = C.parse_ts(case["ts"])
    key = "%s|%s|%d|%s" % (case["n"], case["f"], case["lat"], case["ts"] if (case["lat"] or case["n"] == "HHMM/yearlike") else "-")
    cls = case["n"] + ("/latent" if case["lat"] else "")
    if case.get("x"):
        return {"st": "excl", "sig": "%s:%s" % (case["n"].split("/")[0], case["x"]), "key": key, "cls": cls}
    r = C.api(ctx, case["f"], ts, latent_time=bool(case["lat"]))
    got = C.resv(r)
    h, m = case["h"], case["m"]
    if case["lat"]:
        e = cal.next_clock_strict(ts, h, m)
        exp = [V.T(e.year, e.month, e.day, e.hour, e.minute)]
    else:
        exp = [V.T(hour=h, minute=m)]
        if case.get("ho"):
            exp.append(V.T(hour=h))
    if got in exp:
        return C.ok(key, cls, nt=bool(ctx["mon"].case_rules), obs_={"got": V.show(got), "production": C.obs(r)["production"]})
    # classify by what is observably wrong
    if got is None:
        what = "no-resolution"
    elif got[0] != "T":
        what = "not-a-time"
    elif case["lat"] and V.t_clock(got) == (h, m):
        what = "wrong-anchor-day"
    elif V.t_clock(got) == (12 if h == 0 else h, m) and G.CLOCK.get(case["n"], (None, {}))[1].get("ampm") and h == 0:
        what = "12am-not-midnight"
    elif got[4] is None:
        what = "clock-lost"
    else:
        what = "wrong-clock"
    return C.viol("%s/%s" % (case["n"].split("/")[0] if what != "12am-not-midnight" else "ampm", what),
                  "%r (latent=%d, ts=%s): expected %s, got %s via %s" % (case["f"], case["lat"], ts, V.show(exp[0]), V.show(got), C.obs(r)),
                  key, cls)


def post_check(results, summaries, events, rules, tier):
    if not events.get("api_return"):
        yield ("inconclusive", "API monitor observed no call")
    need = ["ruleHHMM", "ruleHHMMmilitary", "ruleHHOClock", "ruleNamedHour", "ruleMidnight", "ruleQuarterBeforeHH",
            "ruleQuarterAfterHH", "ruleHalfBeforeHH", "ruleHalfAfterHH", "ruleTODPOD", "rulePODTOD"]
    silent = [n for n in need if not rules.get(n)]
    if silent:
        yield ("inconclusive", "rules never observed to fire: %s" % silent)
