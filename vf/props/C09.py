"""C09 — words around a time expression neither change its meaning nor blur
its span.  Paired executions (expression alone / embedded) with all RegexMatch
events of the embedded run; fillers count only if observed inert."""
from datetime import datetime

from ..gen import texts as T
from ..spec import grammar as G, values as V
from . import common as C

TITLE = "surrounding words: value and span"
LEVEL = "exploration"
RULE = ("case = (expression from the specification grammar or the bundled corpus, 0-3 filler words before, 0-3 after, "
        "reference time); two executions: alone and embedded. The fillers count only when NO RegexMatch event of the embedded "
        "run shares a character with them (observed inertness); otherwise the case is excluded and counted. Oracle: same "
        "resolution value; embedded span == span of the alone run shifted by the prefix length; the spanned characters "
        "neither start nor end with a blank (also after latent anchoring). non-trivial = the expression resolves and at "
        "least one filler word was added; distinct on (embedded text, reference time).")
ASSUMPTIONS = ["configuration D (timeout=0)", "filler candidates come from a list of ordinary words; inertness is decided per run by the match monitor"]

# ordinary words; most are inert (no pattern matches inside them), 'meeting' and 'call' are not ('in', 'ca') and
# exercise the observed-inertness exclusion
FILLERS = ["zzz", "qqq", "lorem", "beers", "burgers", "gift", "pizza", "buy", "kwyjibo", "flug", "hotel", "zug", "with", "bob", "alice",
           "projekt", "review", "yoga", "lunch", "besprechung", "x", "qa", "sync", "flight", "paris", "report", "send", "pay", "rent", "gym",
           "party", "zahnarzt", "geburtstag", "urlaub", "büro", "workshop", "deploy", "backup", "taxes", "groceries", "vet", "haircut", "books",
           "code", "ship", "plan", "write", "read", "walk", "run", "swim", "meeting", "call",
           # decomposed (non-NFC) spellings, as some platforms deliver them: offsets must still be those of the text as given
           "Bu\u0308ro", "nai\u0308ve", "u\u0308ben", "Ko\u0308ln", "scho\u0308n", "bru\u0308cke"]
TSS = ["2021-03-10T12:43:30", "2020-02-29T23:59:00", "2019-12-31T08:00:00", "2024-02-28T23:10:00"]


def gen_cases(tier, seed):
    from ..attach import lib
    lib()
    r = C.rng(seed, "C09")
    corp = []
    from ctparse.time.corpus import corpus
    for target, ts, tests in corpus:
        for t in tests:
            corp.append((t, ts + ":00"))
    cases = []
    from . import streams as S
    cov = [(e["t"], e["ts"]) for e in S.cov_entries() if "#" not in e["t"]]
    n = 40000 if tier == "thorough" else 7000
    for i in range(n):
        if i % 3 == 0:
            t, ts = r.choice(corp)
            cls = "corpus"
        elif i % 10 == 1 and cov:
            # a text of the coverage-guided corpus (vf/tools/covsoup.py) as the "expression": unusual rule combinations
            t, ts = r.choice(cov)
            cls = "coverage-corpus"
        else:
            c, t = G.expression(r)
            cls = c.split("/")[0]
            ts = r.choice(TSS)
        npre, npost = r.choice([(0, 1), (1, 0), (1, 1), (2, 0), (0, 2), (3, 3), (2, 1), (0, 3), (3, 0), (0, 0)])
        if i % 12 == 7:
            # "no matter how many such words": a long note before and/or after the expression (offsets beyond 256, 1000)
            npre, npost = r.choice([(60, 0), (45, 3), (0, 70), (120, 40), (250, 0)])
            if i % 24 == 7:
                # notations whose parts touch without a blank: adjacency is decided on raw offsets there
                t = r.choice(["tomorrow 8-10", "3pm-5pm", "18:00-20:00", "12.-14.05.", "Montagmorgen", "5.5.-7.5.2021", "9-5", "morgen 8-10 uhr", "8h-10h", "12.05.2021-14.05.2021"])
                ts, cls = r.choice(TSS), "touching"
        pool = FILLERS if max(npre, npost) <= 3 else [f for f in FILLERS if f not in ("meeting", "call")]
        pre = [r.choice(pool) for _ in range(npre)]
        post = [r.choice(pool) for _ in range(npost)]
        cases.append({"e": t, "ts": ts, "pre": pre, "post": post, "c": cls})
    return cases


def run_case(case, ctx):
    L, mon = ctx["L"], ctx["mon"]
    miss = ctx["mon"].need("_match_regex", "_preprocess_string")
    if miss:
        return miss
    ts = C.parse_ts(case["ts"])
    expr = case["e"]
    emb = " ".join(case["pre"] + [expr] + case["post"])
    key = "%s|%s" % (emb, case["ts"])
    cls = case["c"]
    r0 = C.api(ctx, expr, ts)
    norm0 = mon.case_norm or ""
    v0 = C.resv(r0)
    r1 = C.api(ctx, emb, ts)
    norm1 = mon.case_norm or ""
    matches = list(mon.case_matches)
    v1 = C.resv(r1)
    mon.events["pair_compared"] += 1
    # inertness by observation: which characters of the embedded text belong to fillers
    pre_txt = L.m._preprocess_string(" ".join(case["pre"])) if case["pre"] else ""
    off = len(pre_txt) + 1 if pre_txt else 0
    exp_end = off + len(norm0)
    if norm1[off:exp_end] != norm0:
        return {"st": "inconc", "msg": "harness: expression not found at its offset in the normalised embedded text: %r / %r" % (norm1, norm0), "key": key}
    touched = [m for m in matches if (m[1] < off - (1 if off else 0) and m[2] > 0 and m[1] < m[2] and _overlaps_word(norm1, m, 0, off - 1)) or _overlaps_word(norm1, m, exp_end + 1, len(norm1))]
    if touched:
        mon.events["filler_not_inert"] += 1
        return {"st": "excl", "sig": "filler-not-inert", "key": key, "cls": cls, "msg": "%r: match %s touches a filler" % (emb, touched[0])}
    if v0 is None:
        # nothing to preserve; embedded must not invent a resolution out of inert words
        if v1 is None:
            return C.ok(key, cls, nt=False)
        return C.viol("resolution-appears-when-embedded", "%r alone resolves to nothing, embedded %r -> %s" % (expr, emb, V.show(v1)), key, cls)
    s0 = (r0.resolution.mstart, r0.resolution.mend)
    probs = []
    if v1 != v0:
        probs.append(("value-changed", "alone %s, embedded %s" % (V.show(v0), V.show(v1))))
    else:
        s1 = (r1.resolution.mstart, r1.resolution.mend)
        if s1 != (s0[0] + off, s0[1] + off):
            probs.append(("span-shifted", "alone span %s in %r, embedded span %s in %r (expression at %d..%d)" % (s0, norm0, s1, norm1, off, exp_end)))
        chunk = norm1[s1[0]:s1[1]]
        if chunk != chunk.strip() or chunk == "":
            probs.append(("span-includes-blank", "embedded span %s covers %r" % (s1, chunk)))
    chunk0 = norm0[s0[0]:s0[1]]
    if chunk0 != chunk0.strip() or chunk0 == "":
        probs.append(("span-includes-blank", "alone: span %s of %r covers %r" % (s0, norm0, chunk0)))
    if probs:
        lat = "/anchored" if (v0[0] == "T" and "ruleLatent" not in str(r0.production) and V.dated(v0) and not any(str(p).startswith("rule") and "Date" in str(p) for p in r0.production)) else ""
        return C.viol(probs[0][0], "%r -> %r at %s: %s" % (expr, emb, case["ts"], "; ".join(p[1] for p in probs[:2])), key, cls)
    return C.ok(key, cls, nt=bool(case["pre"] or case["post"]), obs_={"alone": expr, "embedded": emb, "value": V.show(v0), "span_alone": list(s0), "span_embedded": [s0[0] + off, s0[1] + off]})


def _overlaps_word(norm, m, lo, hi):
    """does match (id, s, e) share a non-blank character with norm[lo:hi]?"""
    s, e = max(m[1], lo), min(m[2], hi)
    return s < e and norm[s:e].strip() != ""


def post_check(results, summaries, events, rules, tier):
    if not events.get("pair_compared"):
        yield ("inconclusive", "no pair compared")
