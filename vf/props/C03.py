"""C03 — relative-day expressions hit the exact calendar day for every
reference time.  Monitor: call/return recorder at the API; oracle: the calendar
reference model."""
from datetime import date, datetime

from ..spec import cal, grammar as G, values as V
from . import common as C

TITLE = "relative-day expressions"
LEVEL = "exploration"
RULE = ("case = (concept, surface form, reference date, time of day); forms are the alternatives of the library's own "
        "patterns; dates sweep the 28-year cycle 2016-2043 (quick: all month/year ends, leap days and neighbours + "
        "seeded sample; thorough: every date x every concept with rotating forms, plus every form over a window). "
        "non-trivial = the call returned a resolution and at least one rule fired; distinct on (concept, form, date, time).")
ASSUMPTIONS = ["configuration D: default options with timeout=0 (the wall-clock deadline is C13's subject)",
               "conventions as stated in the property (this/bare weekday strictly after today, next = on or after today+7)",
               "calendar reference model vf/spec/cal.py (datetime/calendar only)"]


def _concepts():
    out = [(c, None) for c in G.REL]
    for i in range(7):
        out += [("dow_this", i), ("dow_next", i), ("dow_nextweek", i)]
    return out


def _forms(concept, dow):
    if concept in G.REL:
        return list(G.REL[concept])
    ws = G.DOW[dow]
    if concept == "dow_this":
        return [p + w for w in ws for p in G.DOW_THIS_PRE]
    if concept == "dow_next":
        return [p + w for w in ws for p in G.DOW_NEXT_PRE]
    return [w + p for w in ws for p in G.DOW_NEXT_POST]


def gen_cases(tier, seed):
    r = C.rng(seed, "C03")
    cases = []
    concepts = _concepts()
    allforms = {cd: _forms(*cd) for cd in concepts}
    rot = {cd: r.randrange(1000) for cd in concepts}

    def add(cd, d, tod, form=None):
        fs = allforms[cd]
        if form is None:
            form = fs[rot[cd] % len(fs)]
            rot[cd] += 1
        cases.append({"c": cd[0], "dow": cd[1], "f": form, "ts": C.iso(C.at(d, tod))})

    tods = C.TIMES_OF_DAY
    if tier == "thorough":
        dates = cal.cycle_dates()
        for k, d in enumerate(dates):
            for j, cd in enumerate(concepts):
                add(cd, d, tods[(k + j) % 3])
        # every form over a two-year window (leap year 2024), one date in three
        win = [d for d in dates if date(2023, 7, 1) <= d <= date(2025, 6, 30)]
        for cd in concepts:
            for fi, f in enumerate(allforms[cd]):
                for k in range(fi % 7, len(win), 7 if cd[0] in G.REL else 29):
                    add(cd, win[k], tods[(k + fi) % 3], f)
    else:
        bd = cal.boundary_dates()
        for k, d in enumerate(bd):
            for j, cd in enumerate(concepts):
                if (k + j) % 2 == 0:
                    add(cd, d, tods[(k + j) % 3])
        dates = cal.cycle_dates()
        for _ in range(4000):
            add(r.choice(concepts), r.choice(dates), r.choice(tods))
        # every form at least twice
        for cd in concepts:
            for f in allforms[cd]:
                for _ in range(2):
                    add(cd, r.choice(bd), r.choice(tods), f)
    # letter case (C11 makes it irrelevant): every form once in capitals and once capitalised as at the start of a
    # sentence -- 'ÜBERMORGEN' contains 'MORGEN', so a case slip on a non-ASCII letter silently gives another day
    bd2 = cal.boundary_dates()
    for cd in concepts:
        for f in allforms[cd]:
            for v in (f.upper(), f.capitalize()):
                if v != f:
                    add(cd, r.choice(bd2), r.choice(tods), v)
    # omitted reference time == injected now
    # (the host is modelled as being `off` minutes away from UTC, see attach.FixedNow) and, with the REAL clock, in a
    # process whose zone is set so far from UTC that the local and the UTC calendar day differ right now
    for cd in concepts:
        for off in (0, 13 * 60, -11 * 60, 330):
            d = r.choice(cal.boundary_dates(2020, 2032))
            cases.append({"c": cd[0], "dow": cd[1], "f": r.choice(allforms[cd]), "ts": None, "off": off,
                          "now": C.iso(C.at(d, r.choice(tods)))})
        cases.append({"c": cd[0], "dow": cd[1], "f": allforms[cd][0], "ts": None, "real": 1})
    r.shuffle(cases)
    return cases


def expected(concept, dow, ts):
    d = ts.date()
    if concept in G.REL_OFFSET:
        e = cal.add_days(d, G.REL_OFFSET[concept])
    elif concept == "now":
        return V.T(d.year, d.month, d.day, ts.hour, ts.minute)
    elif concept == "eom":
        e = cal.eom(d)
    elif concept == "eoy":
        e = cal.eoy(d)
    elif concept == "dow_this":
        e = cal.next_weekday_strict(d, dow)
    else:
        e = cal.next_weekday_from(cal.add_days(d, 7), dow)
    return V.T(e.year, e.month, e.day)


def _real_clock(case, ctx):
    """omitted reference time under the real clock: the zone of this process is moved 12-13 h away from UTC (so that the
    local and the UTC calendar day differ at this very moment), the call is made with nothing patched, and the result must
    be what the local wall clock read just before or just after the call gives"""
    import os
    import time
    from datetime import datetime as _dt, timezone as _tz
    old = os.environ.get("TZ")
    os.environ["TZ"] = "VFB-13" if _dt.now(_tz.utc).hour >= 12 else "VFA+12"
    time.tzset()
    try:
        before = _dt.now()
        r = C.api(ctx, case["f"], None)
        after = _dt.now()
        utc = _dt.now(_tz.utc).replace(tzinfo=None)
    finally:
        if old is None:
            os.environ.pop("TZ", None)
        else:
            os.environ["TZ"] = old
        time.tzset()
    key = "%s|%s|real-clock" % (case["c"], case["f"])
    cls = case["c"] + "/ts-omitted/real-clock"
    if before.date() == utc.date() or abs((before - utc).total_seconds()) < 11 * 3600:
        return {"st": "inconc", "msg": "could not move the zone of this process away from UTC (tzset)"}
    ctx["mon"].events["real_clock_call"] += 1
    got = C.resv(r)
    exps = [expected(case["c"], case["dow"], x) for x in (before, after)]
    if got in exps:
        return C.ok(key, cls, nt=bool(ctx["mon"].case_rules), obs_={"got": V.show(got), "local": str(before), "utc": str(utc)})
    return C.viol("%s/ts-omitted-is-not-local-now" % case["c"],
                  "%r with the reference time omitted, local clock %s (UTC %s): expected %s, got %s via %s"
                  % (case["f"], before, utc, V.show(exps[0]), V.show(got), C.obs(r)), key, cls)


def run_case(case, ctx):
    from datetime import timedelta
    from ..attach import FixedNow
    if case.get("real"):
        return _real_clock(case, ctx)
    ts = C.parse_ts(case["ts"])
    fx = None
    if ts is None:
        now = C.parse_ts(case["now"])
        fx = FixedNow(ctx["L"], now, timedelta(minutes=case.get("off", 0)))
        ctx["mon"].events["now_injected"] += 1
    try:
        r = C.api(ctx, case["f"], ts)
    finally:
        if fx:
            fx.undo()
            if fx.reads:
                ctx["mon"].events["clock_read_observed"] += 1
    ref = ts if ts is not None else now
    exp = expected(case["c"], case["dow"], ref)
    got = C.resv(r)
    key = "%s|%s|%s" % (case["c"], case["f"], case["ts"] or "now=%s%+d" % (case["now"], case.get("off", 0)))
    cls = case["c"] + ("" if case["ts"] else "/ts-omitted")
    if got == exp:
        return C.ok(key, cls, nt=bool(ctx["mon"].case_rules), obs_={"got": V.show(got), "production": C.obs(r)["production"]})
    kind = "wrong-date" if (got and got[0] == "T" and V.dated(got)) else "no-date"
    if ts is None:
        kind += "/ts-omitted"
    return C.viol("%s/%s" % (case["c"], kind),
                  "%r at %s%s: expected %s, got %s via %s" % (case["f"], ref, "" if ts is not None else " (omitted; host %+d min from UTC)" % case.get("off", 0),
                                                              V.show(exp), V.show(got), C.obs(r)),
                  key, cls)


def post_check(results, summaries, events, rules, tier):
    if not events.get("api_return"):
        yield ("inconclusive", "API monitor observed no call")
    need = ["ruleToday", "ruleTomorrow", "ruleAfterTomorrow", "ruleYesterday", "ruleBeforeYesterday", "ruleNow",
            "ruleEOM", "ruleEOY", "ruleNamedDOW", "ruleLatentDOW", "ruleAtDOW", "ruleNextDOW", "ruleDOWNextWeek"]
    silent = [n for n in need if not rules.get(n)]
    if silent:
        yield ("inconclusive", "rules never observed to fire: %s" % silent)
    for e in ("now_injected", "clock_read_observed", "real_clock_call"):
        if not events.get(e):
            yield ("inconclusive", "omitted-reference-time monitor: event %r never observed" % e)
