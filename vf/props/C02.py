"""C02 — every resolution is a well-formed calendar value; accessors never
fail; the span lies inside the normalised text.  Tee on all candidates of the
stream (not only the winner), latent on and off."""
import json
from datetime import datetime, timedelta

from ..spec import grammar as G, values as V
from . import common as C, streams as S

TITLE = "well-formed resolutions"
LEVEL = "exploration"
RULE = ("case = (text, reference time, options) from the C01 generators plus compositions of the specification grammar; "
        "every candidate of the stream is checked, with latent anchoring on and off: field ranges, part of day known to the "
        "library's own table (read at run time), day exists in month (and year), dated interval start <= end, duration "
        "amount/unit types; start / end / dt accessors are called; 0 <= span start < span end <= len(normalised text). "
        "non-trivial = the stream yielded at least one candidate; distinct on (text, reference time, options).")
ASSUMPTIONS = ["an interval is compared as [start of its first end, end of its last end] by the documented accessor conventions",
               "step budget as in C01"]


def gen_cases(tier, seed):
    cases = S.gen(tier, seed, "C02", 4500, 120000)
    r = C.rng(seed, "C02g")
    for _ in range(40000 if tier == "thorough" else 2500):
        c, t = G.expression(r)
        cases.append({"g": "grammar/" + c.split("/")[0], "t": t, "ts": r.choice(["2021-03-10T12:43:30", "2020-02-29T23:59:59", "2019-12-31T08:00:00", "2024-02-28T23:10:00"]),
                      "o": {"latent_time": True, "max_stack_depth": r.choice([10, 10, 0]), "relative_match_len": 1.0, "scorer": "shipped", "debug": False}})
    # part of day x day x clock range in the three orders: one end of the range may be moved into the afternoon and the
    # other not ("last 19. 8-3": found by the soup in a thorough run, now a family of its own)
    pods = ["last", "evening", "abends", "afternoon", "night", "nachmittags", "late evening", "nachts", "tonight", "first", "morning", "am abend"]
    days = ["19.", "friday", "tomorrow", "am 19.", "19.11.2024", "on the 19th", "", "freitag", "31.", "on march 5th"]
    rngs = ["8-3", "8-15", "11-2", "9-5", "8 bis 3", "from 8 to 3", "10:30-1", "12-1", "7 - 11:30", "von 8 bis 15 uhr", "1-12", "8pm-3"]
    combos = [(a, b, c_, k) for a in pods for b in days for c_ in rngs for k in (0, 1, 2)]
    r.shuffle(combos)
    for a, b, c_, k in (combos if tier == "thorough" else combos[:400]):
        t = " ".join((("%s %s %s", "%s %s %s", "%s %s %s")[k] % ((a, b, c_), (b, a, c_), (b, c_, a))[k]).split())
        cases.append({"g": "podday-range", "t": t, "ts": r.choice(["2021-03-10T12:43:30", "2020-02-29T23:59:59", "2019-12-31T08:00:00", "2024-11-04T09:30:59"]),
                      "o": {"latent_time": True, "max_stack_depth": r.choice([10, 0] if tier == "thorough" else [10, 10, 10, 0]), "relative_match_len": r.choice([1.0, 0.8]),
                            "scorer": "shipped", "debug": False}})
    return cases


def _edge(v, pod_hours, end):
    """datetime of the start (end=False) or end (end=True) of a dated time value"""
    _, y, mo, d, h, mi, dow, pod = v
    if h is None and pod is not None:
        h = pod_hours[pod][1 if end else 0]
        mi2 = mi if mi is not None else (59 if end else 0)
    else:
        mi2 = mi if mi is not None else (59 if (end and h is None) or (end and mi is None) else 0)
        if h is None:
            h = 23 if end else 0
    return datetime(y, mo, d) + timedelta(hours=h, minutes=mi2)


def problems_of(L, art, norm):
    pr = []
    v = V.val(art)
    pods = L.pod_hours
    kind = v[0]
    times = []
    if kind == "T":
        times = [v]
    elif kind == "I":
        for e in v[1:]:
            if e is not None:
                if e[0] != "T":
                    pr.append("interval-end-not-a-time")
                else:
                    times.append(e)
        if v[1] is None and v[2] is None:
            pr.append("interval-without-ends")
    elif kind == "D":
        if not V._is_int(v[1]) or v[1] < 0:
            pr.append("duration-amount")
        if type(getattr(art, "unit", None)).__name__ != "DurationUnit":
            pr.append("duration-unit")
    else:
        pr.append("not-a-resolution:" + kind)
    for t in times:
        pr += V.time_problems(t, pods)
    if not pr and kind == "I" and v[1] is not None and v[2] is not None and V.dated(v[1]) and V.dated(v[2]):
        if _edge(v[1], pods, False) > _edge(v[2], pods, True):
            pr.append("interval-start-after-end")
    # accessors are called
    try:
        if kind in ("T", "I"):
            s, e = art.start, art.end
            for x in (s, e):
                if x is not None and V.time_problems(V.val(x), pods):
                    pr.append("accessor-value:" + ",".join(V.time_problems(V.val(x), pods)))
        if kind == "T" and V.dated(v):
            art.dt
        if kind == "I":
            for end in (art.t_from, art.t_to):
                if end is not None and V.dated(V.val(end)):
                    end.dt
    except Exception as ex:  # noqa
        pr.append("accessor-raises:%s" % type(ex).__name__)
    ms, me = art.mstart, art.mend
    if not (isinstance(ms, int) and isinstance(me, int) and 0 <= ms < me <= len(norm)):
        pr.append("span")
    return pr


def run_case(case, ctx):
    L, mon = ctx["L"], ctx["mon"]
    miss = mon.need("_preprocess_string")       # the span clause refers to the normalised text, observed at the normaliser
    if miss:
        return miss
    ts = C.parse_ts(case["ts"])
    key = json.dumps([case["t"], case["ts"], case["o"]], ensure_ascii=False, sort_keys=True)
    cls = case["g"]
    ncand = 0
    found = []
    o0, _ = S.opts(case, L)
    C.perturb(ctx, case["t"], ts, {k: v for k, v in o0.items() if k != "timeout"})
    for lat in ((True, False) if case["o"].get("latent_time", True) else (False,)):
        o, _ = S.opts(case, L)
        o["latent_time"] = lat
        mon.begin()
        try:
            stream = list(L.ctparse_gen(case["t"], ts=ts, **o))
        except Exception as e:  # noqa  (totality is C01's subject)
            mon.events["stream_raised"] += 1
            return {"st": "skip", "sig": "stream-raises:%s (C01)" % type(e).__name__, "key": key, "cls": cls}
        norm = mon.case_norm if mon.case_norm is not None else ""
        ctx["feats"] |= mon.feats
        for p in stream:
            if p is None or p.resolution is None:
                continue
            ncand += 1
            mon.events["candidate_checked"] += 1
            pr = problems_of(L, p.resolution, norm)
            if pr:
                found.append((pr, lat, V.show(V.val(p.resolution)), (p.resolution.mstart, p.resolution.mend), len(norm)))
    if found:
        pr, lat, shown, span, ln = found[0]
        tags = sorted(set(t.split(":")[0] for f in found for t in f[0]))
        sig = "+".join(tags) + ("/latent" if all(f[1] for f in found) else "")
        return C.viol(sig, "%r (ts=%s): %d ill-formed candidates; first (latent=%s): %s span=%s len=%d: %s" % (case["t"], case["ts"], len(found), lat, shown, span, ln, pr), key, cls)
    return C.ok(key, cls, nt=ncand > 0, obs_={"text": case["t"], "ts": case["ts"], "candidates_checked": ncand})


def setup_worker(ctx):
    # rule-application signatures (which rule consumed what, with which fields present): reported as coverage
    ctx["mon"].track_feat = True
    ctx["feats"] = set()


def worker_summary(ctx):
    return {"feats": sorted(ctx["feats"])}


def extra_coverage(results, summaries):
    feats = set()
    for s in summaries:
        feats |= set((s.get("extra") or {}).get("feats", []))
    return {"rule_application_signatures_observed": len(feats),
            "rule_application_signatures_sample": sorted(feats)[:: max(1, len(feats) // 12)][:12]}


def post_check(results, summaries, events, rules, tier):
    if events.get("candidate_checked", 0) < 1000:
        yield ("inconclusive", "only %s candidates were observed" % events.get("candidate_checked"))
