"""C16 — the scorer is textbook multinomial naive Bayes over 1-3-grams of the
rule trace.  Contract on the real CTParsePipeline.predict_log_proba (every
scoring call of a parse is re-derived), reference model on random corpora,
score formula, save/load."""
import math
import os
import tempfile
from datetime import datetime

from ..spec import nb_ref, values as V
from . import common as C

TITLE = "scorer = textbook naive Bayes"
LEVEL = "exploration"
RULE = ("case kinds: corpus = one seeded random training set (alphabet 1-8 tokens, 2-60 documents of 0-7 tokens, both "
        "classes present, repeats) + 12 query documents incl. unseen tokens, empty and long ones: fitted model vs textbook "
        "model to 1e-9, finite, exp sums to 1, save->load identical floats; parse = one bundled-corpus text parsed with the "
        "shipped model (and with a model trained in the case) while a contract on predict_log_proba re-derives every "
        "posterior from the fitted parameters and a recording scorer re-derives score / score_final; retrain (thorough) = "
        "the model retrained on the bundled corpus samples vs the textbook model. non-trivial = at least one prediction "
        "with a known n-gram compared; distinct on the case id.")
ASSUMPTIONS = ["single-class training sets are outside the domain (a textbook model has a -inf prior there)",
               "tolerance 1e-9 absolute on log-probabilities"]
TOL = 1e-9


class Breach(Exception):
    pass


def setup_worker(ctx):
    import icontract
    L, mon = ctx["L"], ctx["mon"]
    import ctparse.pipeline as P
    st = ctx["c16"] = {"breaches": []}

    def posterior_is_textbook(self, X, result):
        for doc, res in zip(X, result):
            mon.events["contract_posterior"] += 1
            ref = nb_ref.posterior_from_params(self.transformer.vocabulary, self.estimator.class_prior, self.estimator.log_likelihood, doc)
            ok = all(isinstance(x, float) and math.isfinite(x) for x in res) and abs(math.exp(res[0]) + math.exp(res[1]) - 1.0) < 1e-9 \
                and abs(res[0] - ref[0]) < TOL * (1 + abs(ref[0])) and abs(res[1] - ref[1]) < TOL * (1 + abs(ref[1]))
            if not ok:
                st["breaches"].append("predict_log_proba(%r) = %r, recomputed from the fitted parameters: %r" % (list(doc), res, ref))
        return True

    P.CTParsePipeline.predict_log_proba = icontract.ensure(posterior_is_textbook, error=Breach)(P.CTParsePipeline.predict_log_proba)


def gen_cases(tier, seed):
    n = 20000 if tier == "thorough" else 2500
    cases = [{"k": "corpus", "i": i} for i in range(n)]
    cases += [{"k": "parse", "i": i, "own": i % 4 == 3} for i in range(1500 if tier == "thorough" else 300)]
    lens = sorted(set(list(range(14, 300, 1 if tier == "thorough" else 5)) + [31, 32, 33, 63, 64, 65, 100, 127, 128, 129, 200, 255, 256, 257, 299, 300, 512, 1000]))
    cases += [{"k": "parse", "i": i, "own": False, "pad": n_} for i, n_ in enumerate(lens)]
    # very long rule traces straight into the shipped model: the class log-likelihoods fall far below the range in which
    # exp() is representable, the posterior must still be the textbook one (and finite)
    long_lens = [20, 35, 50, 80, 120, 150, 200, 300, 500, 1000, 3000]
    cases += [{"k": "long", "i": i, "n": n_} for i, n_ in enumerate(long_lens * (4 if tier == "thorough" else 1))]
    if tier == "thorough":
        cases.append({"k": "retrain"})
    return cases


def _rand_corpus(r):
    alpha_n = r.randrange(1, 9)
    toks = ["t%d" % i for i in r.sample(range(100, 140), alpha_n)] + (["ruleX"] if r.random() < 0.3 else [])
    nd = r.randrange(2, 61)
    docs, ys = [], []
    for _ in range(nd):
        ln = r.choice([0, 1, 1, 2, 3, 4, 5, 6, 7])
        docs.append([r.choice(toks) for _ in range(ln)])
        ys.append(r.random() < r.choice([0.5, 0.2, 0.8]))
    if all(ys):
        ys[r.randrange(nd)] = False
    if not any(ys):
        ys[r.randrange(nd)] = True
    if not any(docs):
        docs[0] = [toks[0]]
    # repeats
    for _ in range(r.randrange(0, 4)):
        j = r.randrange(len(docs))
        docs.append(list(docs[j]))
        ys.append(ys[j])
    queries = [list(r.choice(docs)) for _ in range(4)]
    queries += [[], [toks[0]], ["unseen"], [toks[0], "unseen", toks[-1]], [r.choice(toks) for _ in range(12)],
                [r.choice(toks + ["zzz"]) for _ in range(5)], list(reversed(docs[0])), [toks[0]] * 6]
    return docs, ys, queries


def run_case(case, ctx):
    L, mon, st = ctx["L"], ctx["mon"], ctx["c16"]
    st["breaches"][:] = []
    from ctparse.nb_scorer import train_naive_bayes, save_naive_bayes, NaiveBayesScorer
    k = case["k"]
    probs = []
    nt = False
    if k == "corpus":
        r = C.rng(ctx["seed"], "C16", case["i"])
        docs, ys, queries = _rand_corpus(r)
        model = train_naive_bayes(docs, ys)
        ref = nb_ref.RefNB(docs, ys)
        if set(model.transformer.vocabulary) != ref.vocab:
            probs.append("vocabulary differs from the set of all 1-3-grams: %r" % sorted(set(model.transformer.vocabulary) ^ ref.vocab)[:5])
        got = model.predict_log_proba(queries)
        for q, g in zip(queries, got):
            e = ref.predict_log_proba(q)
            mon.events["prediction_compared"] += 1
            if any(f in ref.vocab for f in nb_ref.ngrams(q)):
                nt = True
            if not (all(math.isfinite(x) for x in g) and abs(g[0] - e[0]) < TOL and abs(g[1] - e[1]) < TOL):
                probs.append("query %r: model %r, textbook %r (corpus of %d docs)" % (q, g, e, len(docs)))
            if abs(math.exp(g[0]) + math.exp(g[1]) - 1) > 1e-9:
                probs.append("query %r: probabilities sum to %r" % (q, math.exp(g[0]) + math.exp(g[1])))
        # save -> load -> identical floats
        fd, path = tempfile.mkstemp(suffix=".pbz", dir=os.environ.get("VERIF_TMP") or None)
        os.close(fd)
        try:
            save_naive_bayes(model, path)
            sc2 = NaiveBayesScorer.from_model_file(path)
            got2 = sc2._model.predict_log_proba(queries)
            mon.events["save_load_roundtrip"] += 1
            if [tuple(x) for x in got2] != [tuple(x) for x in got]:
                probs.append("save/load changed predictions")
        finally:
            os.unlink(path)
        # models trained EARLIER in this process must still be textbook models after this training (nothing may be shared)
        for (m_old, ref_old, q_old, saved_old) in ctx.setdefault("c16_old", []):
            mon.events["earlier_model_rechecked"] += 1
            g_old = m_old.predict_log_proba(q_old)
            for q, g in zip(q_old, g_old):
                e = ref_old.predict_log_proba(q)
                if not (abs(g[0] - e[0]) < TOL and abs(g[1] - e[1]) < TOL):
                    probs.append("a model trained earlier in this process changed after a later training: query %r now %r, textbook %r" % (q, g, e))
                    break
            if [tuple(x) for x in g_old] != saved_old:
                probs.append("predictions of an earlier model differ from what it predicted right after its own training")
        ctx["c16_old"] = (ctx["c16_old"] + [(model, ref, queries, [tuple(x) for x in got])])[-3:]
        key = "corpus/%d" % case["i"]
        obs = {"docs": len(docs), "vocab": len(ref.vocab), "queries": len(queries), "example": {"q": queries[0], "logp": list(got[0])}}
    elif k == "parse":
        from ctparse.time.corpus import corpus
        r = C.rng(ctx["seed"], "C16p", case["i"])
        target, ts, tests = corpus[(case["i"] * 5) % len(corpus)]
        ts = datetime.strptime(ts, "%Y-%m-%dT%H:%M")
        text = tests[case["i"] % len(tests)]
        if case.get("pad") is not None:
            # the covered share of the text for every text length: the expression padded with inert words to exactly `pad`
            # characters (partial coverage; lengths around powers of two and in the hundreds included)
            base = ["tomorrow 5pm", "am 5. um 8 uhr", "friday 10-6"][case["i"] % 3]
            filler = "zzz qqq lorem kwyjibo xq "
            text = (base + " " + filler * 40)[:case["pad"]].rstrip()
            text = text + "q" * (case["pad"] - len(text))
            ts = datetime(2021, 3, 10, 12, 43)
        if case["own"]:
            docs, ys, _ = _rand_corpus(r)
            docs = [[str(r.choice([100, 104, 108, 128, "ruleHHMM", "ruleDOM1", "ruleNamedHour"])) for _ in d] or ["128"] for d in docs]
            inner = NaiveBayesScorer(train_naive_bayes(docs, ys))
        else:
            inner = L.m._DEFAULT_SCORER
        if type(inner).__name__ != "NaiveBayesScorer":
            return {"st": "inconc", "msg": "default scorer is %s, not the shipped model" % type(inner).__name__}
        rec = []

        class Recording(L.scorer.Scorer):
            def score(self, txt, ts_, pp):
                v = inner.score(txt, ts_, pp)
                rec.append(("score", txt, [str(x) for x in pp.rules], pp.prod[-1].mend - pp.prod[0].mstart, v))
                return v

            def score_final(self, txt, ts_, pp, prod):
                v = inner.score_final(txt, ts_, pp, prod)
                rec.append(("final", txt, [str(x) for x in pp.rules], prod.mend - prod.mstart, v))
                return v

        n0 = mon.events["contract_posterior"]
        list(L.ctparse_gen(text, ts=ts, timeout=0, scorer=Recording(), latent_time=False))
        mdl = inner._model
        for kind, txt, rules, covered, v in rec:
            mon.events["score_compared"] += 1
            lp = nb_ref.posterior_from_params(mdl.transformer.vocabulary, mdl.estimator.class_prior, mdl.estimator.log_likelihood, rules)
            odds = lp[1] - lp[0]
            want = odds + (1000.0 if kind == "final" else 1.0) * math.log(covered / len(txt))
            if not (isinstance(v, float) and math.isfinite(v) and abs(v - want) < 1e-6):
                probs.append("%s(%r, trace %r, covered %d/%d) = %r, expected log-odds %r + length term = %r" % (kind, txt, rules, covered, len(txt), v, odds, want))
        nt = bool(rec) and mon.events["contract_posterior"] > n0
        key = "parse/%d/%s" % (case["i"], "own" if case["own"] else "shipped")
        obs = {"text": text, "scoring_calls": len(rec), "contract_evaluations": mon.events["contract_posterior"] - n0}
    elif k == "long":
        r = C.rng(ctx["seed"], "C16l", case["i"])
        inner = L.m._DEFAULT_SCORER
        if type(inner).__name__ != "NaiveBayesScorer":
            return {"st": "inconc", "msg": "default scorer is %s, not the shipped model" % type(inner).__name__}
        mdl = inner._model
        vocab = mdl.transformer.vocabulary
        uni = sorted(f for f in vocab if " " not in f)
        tri = sorted(f for f in vocab if f.count(" ") == 2)
        docs = [[r.choice(uni) for _ in range(case["n"])]]
        d2 = []
        while len(d2) < case["n"]:          # seen trigrams chained: every n-gram order contributes
            d2 += r.choice(tri).split(" ")
        docs.append(d2[:case["n"]])
        docs.append([r.choice(uni)] * case["n"])
        n0 = mon.events["contract_posterior"]
        for doc in docs:
            mon.events["prediction_compared"] += 1
            e = nb_ref.posterior_from_params(vocab, mdl.estimator.class_prior, mdl.estimator.log_likelihood, doc)
            try:
                g = mdl.predict_log_proba([doc])[0]
            except Breach:
                raise
            except Exception as ex:
                probs.append("predict_log_proba on a trace of %d rules (%r...) raised %s: %s" % (len(doc), doc[:4], type(ex).__name__, ex))
                continue
            if not (all(isinstance(x, float) and math.isfinite(x) for x in g)
                    and all(abs(a - b) < TOL * (1 + abs(b)) + 1e-12 * len(doc) for a, b in zip(g, e))):
                probs.append("trace of %d rules (%r...): model %r, textbook %r" % (len(doc), doc[:4], g, e))
        nt = True
        key = "long/%d/%d" % (case["i"], case["n"])
        obs = {"trace_length": case["n"], "traces": len(docs), "contract_evaluations": mon.events["contract_posterior"] - n0}
    else:
        from ctparse.corpus import run_corpus
        from ctparse.time.corpus import corpus
        import ctparse.corpus as CC
        old = CC.tqdm
        CC.tqdm = lambda x, **k: x
        try:
            X, y = run_corpus(corpus)
        finally:
            CC.tqdm = old
        model = train_naive_bayes(X, y)
        ref = nb_ref.RefNB(X, y)
        r = C.rng(ctx["seed"], "C16r")
        qs = r.sample(X, 1500)
        for q, g in zip(qs, model.predict_log_proba(qs)):
            e = ref.predict_log_proba(q)
            mon.events["prediction_compared"] += 1
            if not (abs(g[0] - e[0]) < TOL and abs(g[1] - e[1]) < TOL):
                probs.append("retrained: %r model %r textbook %r" % (q, g, e))
        nt = True
        key = "retrain"
        obs = {"samples": len(X), "vocab": len(ref.vocab), "compared": len(qs)}
    probs += st["breaches"]
    if probs:
        return C.viol("%s/%s" % (k, "contract" if st["breaches"] and len(probs) == len(st["breaches"]) else "mismatch"),
                      "%d problems; first: %s" % (len(probs), probs[0][:600]), key, k)
    return C.ok(key, k, nt=nt, obs_=obs)


def post_check(results, summaries, events, rules, tier):
    if not events.get("contract_posterior"):
        yield ("inconclusive", "the predict_log_proba contract was never evaluated (reference bound before decoration?)")
    if not events.get("prediction_compared") or not events.get("score_compared") or not events.get("save_load_roundtrip"):
        yield ("inconclusive", "too few events: %s" % {k: events.get(k) for k in ("prediction_compared", "score_compared", "save_load_roundtrip")})
