"""C04 — partial dates resolve to the nearest future occurrence, written fields
preserved.  Monitor: API recorder; oracle: calendar model (nearest future
match) plus the three generic clauses of the property checked independently
(never before the reference date, written fields preserved, nothing matching in
between)."""
from datetime import date, datetime, timedelta

from ..spec import cal, grammar as G, values as V
from . import common as C

TITLE = "partial dates -> nearest future occurrence"
LEVEL = "exploration"
RULE = ("case = (kind, surface form, written fields, reference date, time of day); weekdays x days of month 1-31 x all "
        "366 day+month pairs x all part-of-day forms against the 28-year cycle (thorough: every date for weekdays and "
        "days of month, +-1 day around each anniversary and all month/leap boundaries for day+month; quick: boundaries + "
        "seeded sample; weekday + day of month: every 13th/29th/30th/31st of 2016-2031 as the written pair, reference dates on, "
        "one day, 200 and 366 days after it) at boundary times of day (for parts of day: their own start hour +-1 minute). non-trivial = "
        "resolution returned and a rule fired; distinct on (kind, form, reference time).")
ASSUMPTIONS = ["configuration D (timeout=0)",
               "conventions as stated: weekday / day of month equal to today's rolls to the next one; day+month equal to today's stays; "
               "weekday + day of month equal to today's stays (the code's scan starts at the reference time)",
               "a part of day resolves to the date of its next start strictly after the reference minute (the library's own part-of-day table gives the start hour)"]


def _dates_for_doy(m, d, tier, r):
    out = set()
    years = range(2016, 2044) if tier == "thorough" else r.sample(range(2016, 2044), 5)
    for y in years:
        if d <= cal.mlen(y, m):
            a = date(y, m, d)
        else:
            a = date(y, 3, 1)
        for k in (-1, 0, 1):
            out.add(a + timedelta(days=k))
        out.add(date(y, 12, 31))
        out.add(date(y, 1, 1))
    return sorted(out)


def gen_cases(tier, seed):
    r = C.rng(seed, "C04")
    cases = []
    tods = C.TIMES_OF_DAY
    cyc = cal.cycle_dates()
    bd = cal.boundary_dates()
    dom_forms = list(G.DOM_FORMS)
    doy_forms = list(G.DOY_FORMS)
    k = r.randrange(1000)

    # weekdays (bare forms) --------------------------------------------------
    dates = cyc if tier == "thorough" else bd[::2] + r.sample(cyc, 800)
    for d in dates:
        for i in range(7):
            k += 1
            ws = G.DOW[i]
            cases.append({"k": "dow", "dow": i, "f": ws[k % len(ws)], "ts": C.iso(C.at(d, tods[k % 3]))})
    # days of month ----------------------------------------------------------
    dates = cyc if tier == "thorough" else bd[::3] + r.sample(cyc, 500)
    for d in dates:
        for n in range(1, 32):
            k += 1
            if tier != "thorough" and n < 28 and k % 4:
                continue
            fn = dom_forms[k % len(dom_forms)]
            cases.append({"k": "dom", "d": n, "fn": fn, "f": G.DOM_FORMS[fn](n), "ts": C.iso(C.at(d, tods[k % 3]))})
    # day + month ------------------------------------------------------------
    for m in range(1, 13):
        for d in range(1, (29 if m == 2 else cal.mlen(2001, m)) + 1):
            ds = _dates_for_doy(m, d, tier, r)
            if (m, d) == (2, 29) or d >= 30:
                ds = sorted(set(ds) | set(bd if tier == "thorough" else bd[::5]))
            for dd in ds:
                for _ in range(8):
                    k += 1
                    fn = doy_forms[k % len(doy_forms)]
                    t = G.DOY_FORMS[fn](d, m)
                    if t is not None:
                        break
                cases.append({"k": "doy", "d": d, "m": m, "fn": fn, "f": t, "ts": C.iso(C.at(dd, tods[k % 3]))})
    # every day+month form once per month
    for fn in doy_forms:
        for m in range(1, 13):
            for d in (1, 13, 28):
                t = G.DOY_FORMS[fn](d, m)
                if t:
                    cases.append({"k": "doy", "d": d, "m": m, "fn": fn, "f": t, "ts": C.iso(C.at(r.choice(bd), r.choice(tods)))})
    # weekday + day of month ('friday 13th'): the nearest date from the reference date on (today included - the convention of
    # the code) that has BOTH written fields; such a pairing can be absent for up to 14 months (friday 13th: 2001-07-13 ->
    # 2002-09-13; monday 31st: 2001-12-31 -> 2003-03-31), so reference dates right after an occurrence are enumerated
    wd_en = ("monday", "tuesday", "wednesday", "thursday", "friday", "saturday", "sunday")
    wd_de = ("montag", "dienstag", "mittwoch", "donnerstag", "freitag", "samstag", "sonntag")
    from datetime import timedelta as _td
    occ = []
    d0 = date(2016, 1, 1)
    while d0 < date(2032, 1, 1):
        if d0.day in (13, 29, 30, 31) and (tier == "thorough" or (d0.toordinal() + seed) % 3 == 0):
            occ.append(d0)
        d0 += _td(days=1)
    for d0 in occ:
        for off in (0, 1, 200, 366):
            k += 1
            n, i = d0.day, d0.weekday()
            w = (wd_en, wd_de)[k % 2][i]
            t = [("%s %s" % (w, G.ord_en(n))), "%s der %d." % (w, n), "%s %d." % (w, n), "%s the %s" % (w, G.ord_en(n))][k % 4]
            cases.append({"k": "dowdom", "dow": i, "d": n, "f": t, "ts": C.iso(C.at(d0 + _td(days=off), tods[k % 3]))})
    # parts of day: boundary times are read from the library's own table in the worker
    pdates = [date(2019, 12, 31), date(2020, 2, 28), date(2020, 2, 29), date(2021, 3, 10), date(2023, 4, 30), date(2024, 12, 31)]
    for f, pod in G.POD_FORMS.items():
        for d in (pdates if tier == "thorough" else r.sample(pdates, 3)):
            for rel in ("start-1m", "start", "start+30s", "start+1m", "00:00", "23:59", "noon"):
                cases.append({"k": "pod", "pod": pod, "f": f, "d0": d.isoformat(), "rel": rel})
    r.shuffle(cases)
    return cases


def _pod_ts(case, L):
    d = date.fromisoformat(case["d0"])
    h0 = L.pod_hours[case["pod"]][0]
    st = datetime(d.year, d.month, d.day, h0 % 24, 0)
    rel = case["rel"]
    if rel == "start-1m":
        return st - timedelta(minutes=1)
    if rel == "start":
        return st
    if rel == "start+30s":
        return st + timedelta(seconds=30)
    if rel == "start+1m":
        return st + timedelta(minutes=1)
    if rel == "00:00":
        return datetime(d.year, d.month, d.day)
    if rel == "23:59":
        return datetime(d.year, d.month, d.day, 23, 59, 59, 999999)
    return datetime(d.year, d.month, d.day, 12, 0, 1)


def run_case(case, ctx):
    L = ctx["L"]
    kind = case["k"]
    if kind == "pod":
        if case["pod"] not in L.pod_hours:
            return {"st": "inconc", "msg": "grammar names part of day %r that the library's table does not have" % case["pod"]}
        ts = _pod_ts(case, L)
    else:
        ts = C.parse_ts(case["ts"])
    ref = ts.date()
    r = C.api(ctx, case["f"], ts)
    got = C.resv(r)
    key = "%s|%s|%s" % (kind, case["f"], ts.isoformat())
    cls = kind + ("/" + case["fn"] if "fn" in case else "")
    if kind == "dow":
        e = cal.next_weekday_strict(ref, case["dow"])
        exp = V.T(e.year, e.month, e.day)
    elif kind == "dom":
        e = cal.next_dom_strict(ref, case["d"])
        exp = V.T(e.year, e.month, e.day)
    elif kind == "doy":
        e = cal.next_doy_from(ref, case["m"], case["d"])
        exp = V.T(e.year, e.month, e.day)
    elif kind == "dowdom":
        e = ref
        while not (e.day == case["d"] and e.weekday() == case["dow"]):      # day-by-day calendar scan, at most ~3 years
            e += timedelta(days=1)
        exp = V.T(e.year, e.month, e.day)
    else:
        h0 = L.pod_hours[case["pod"]][0]
        st = datetime(ref.year, ref.month, ref.day, h0 % 24, 0)
        e = ref if st > ts.replace(second=0, microsecond=0) else ref + timedelta(days=1)
        exp = V.T(e.year, e.month, e.day, POD=case["pod"])
    if got == exp:
        return C.ok(key, cls, nt=bool(ctx["mon"].case_rules), obs_={"ts": ts.isoformat(), "got": V.show(got), "production": C.obs(r)["production"]})
    # which clause of the property is broken (independent of the closed-form expectation)
    what = "other"
    if got is None or got[0] != "T" or not V.dated(got):
        what = "no-date"
    else:
        try:
            gd = date(got[1], got[2], got[3])
        except ValueError:
            gd = None
        if gd is None:
            what = "impossible-date"
        elif gd < ref:
            what = "before-reference"
        elif kind == "dowdom" and (gd.day != case["d"] or gd.weekday() != case["dow"]):
            what = "written-weekday-or-day-not-preserved"
        elif kind == "dom" and gd.day != case["d"]:
            what = "written-day-not-preserved"
        elif kind == "doy" and (gd.month, gd.day) != (case["m"], case["d"]):
            what = "written-day-month-not-preserved"
        elif kind == "dow" and gd.weekday() != case["dow"]:
            what = "written-weekday-not-preserved"
        elif kind == "pod" and got[7] != case["pod"]:
            what = "part-of-day-not-preserved"
        elif gd > e:
            what = "not-nearest"
        elif gd < e:
            what = "convention-today"
        elif got[4] is not None or got[5] is not None:
            what = "spurious-clock"
    return C.viol("%s/%s" % (kind, what), "%r at %s: expected %s, got %s via %s" % (case["f"], ts, V.show(exp), V.show(got), C.obs(r)), key, cls)


def post_check(results, summaries, events, rules, tier):
    if not events.get("api_return"):
        yield ("inconclusive", "API monitor observed no call")
    need = ["ruleLatentDOM", "ruleLatentDOW", "ruleLatentDOY", "ruleLatentPOD", "ruleEarlyLatePOD", "ruleDOM1", "ruleDOM2",
            "ruleDDMM", "ruleMMDD", "ruleDOMMonth", "ruleDOMMonth2", "ruleMonthDOM", "ruleDOWDOM"]
    silent = [n for n in need if not rules.get(n)]
    if silent:
        yield ("inconclusive", "rules never observed to fire: %s" % silent)
