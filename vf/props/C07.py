"""C07 — ranges are built from their two ends, ordered, and wrap sensibly.
Monitor: API recorder; oracle: range model."""
from datetime import date, datetime, timedelta

from ..spec import cal, grammar as G, values as V
from . import common as C

TITLE = "ranges"
LEVEL = "exploration"
RULE = ("case kinds: clock (all 24x24 hour pairs, with minute variants, x joiner x hour form x context {none, explicit "
        "date, 'am d.m.', tomorrow, weekday}), datepair (ordered and reversed pairs x joiner x date notation), halfopen "
        "(before/after/not before/not after spellings x {date, date+time, clock}). thorough enumerates context x joiner x "
        "form x pair; quick rotates them over all 576 pairs. non-trivial = a resolution was returned and a rule fired; "
        "distinct on (kind, text, reference time).")
ASSUMPTIONS = ["configuration D (timeout=0); configuration E only labels beam truncation",
               "a written end not after the start: +12 h is required when both hours are <= 12 and the end hour is smaller "
               "('9-5'), otherwise +12 h (both <= 12) or the next day are both accepted; never inverted, never > 24 h",
               "reversed date pairs: the oracle is 'no inverted interval is returned', not a particular fallback",
               "'morgen' is not used as a date context for clock ranges (also reads 'morning'); '<range> <date>' has no rule"]

TS0 = datetime(2021, 3, 10, 12, 43, 30)  # a Wednesday
CTX_DATE = date(2021, 5, 12)


def _ctx(name, ts):
    d = ts.date()
    if name == "none":
        return "", None
    if name == "date":
        return "12.05.2021 ", CTX_DATE
    if name == "am d.m.":
        return "am 12.5. ", cal.next_doy_from(d, 5, 12)
    if name == "tomorrow":
        return "tomorrow ", d + timedelta(days=1)
    if name == "on friday":
        return "on friday ", cal.next_weekday_strict(d, 4)
    if name == "freitag":
        return "freitag ", cal.next_weekday_strict(d, 4)
    raise KeyError(name)


def accepted_ends(day, ha, ma, hb, mb):
    a = datetime(day.year, day.month, day.day, ha, ma)
    b = datetime(day.year, day.month, day.day, hb, mb)
    if b > a:
        return a, [b]
    acc = []
    if ha <= 12 and hb <= 12 and b + timedelta(hours=12) > a:
        acc.append(b + timedelta(hours=12))
        if hb < ha and ha < 12:
            # the property's own example: 9-5 means 09:00-17:00; from 12:xx either reading is sensible
            return a, acc
    acc.append(b + timedelta(days=1))
    return a, [x for x in acc if x > a and x - a <= timedelta(hours=24)]


def gen_cases(tier, seed):
    r = C.rng(seed, "C07")
    cases = []
    joins = list(G.RANGE_JOIN)
    forms = list(G.RANGE_HOUR_FORMS)
    ctxs = list(G.RANGE_CTX)
    refs = [TS0, datetime(2024, 2, 28, 23, 10), datetime(2019, 12, 31, 8, 0), datetime(2022, 7, 1, 0, 0)]
    k = r.randrange(1000)
    # (ends written "H o'clock" only without a date, on an explicit date and on 'tomorrow': on the other day words the depth
    # limit cuts the reading off, which is the known beam-truncation mechanism and not what this form is here for)
    combos = [(c, j, f) for c in ctxs for j in joins for f in forms if f != "H o'clock" or c in ("none", "date", "tomorrow")]
    r.shuffle(combos)
    minute_pairs = [(0, 0), (30, 30), (30, 10), (0, 45), (15, 15)]
    for ha in range(24):
        for hb in range(24):
            if tier == "thorough":
                sel = combos
            else:
                sel = [combos[(k + i * 37) % len(combos)] for i in range(9)]
                k += 5
            for (c, j, f) in sel:
                k += 1
                ma, mb = minute_pairs[k % len(minute_pairs)] if k % 3 == 0 else (0, 0)
                cases.append({"k": "clock", "ctx": c, "j": j, "hf": f, "ha": ha, "ma": ma, "hb": hb, "mb": mb,
                              "ts": C.iso(refs[k % len(refs)] if c != "date" or k % 2 else TS0)})
    # date pairs
    dn = ["dd.mm.yyyy", "d.m.yyyy", "dd/mm/yyyy", "dd-mm-yyyy", "d Month yyyy", "d. Monat yyyy"]
    d0 = date(1990, 1, 1)
    n = 1500 if tier == "thorough" else 250
    for i in range(n):
        a = d0 + timedelta(days=r.randrange(14000))
        b = a + timedelta(days=r.choice([1, 2, 7, 30, 31, 365, 366, r.randrange(1, 900)]))
        if b.year > 2029:
            continue
        for j in (joins if tier == "thorough" else r.sample(joins, 4)):
            nn = dn[(i + len(j)) % 4] if i % 8 else dn[4 + (i // 8) % 2]
            for rev in (0, 1):
                cases.append({"k": "datepair", "j": j, "n": nn, "a": a.isoformat(), "b": b.isoformat(), "rev": rev,
                              "ts": C.iso(refs[i % len(refs)])})
    # both ends with their own date AND clock time ('5.5.2020 11:30 - 5.5.2020 13:45'): ordered pairs give [A .. B], reversed
    # pairs must not come back as an inverted interval (same day and different days, all minute combinations)
    for i in range(1500 if tier == "thorough" else 300):
        a = d0 + timedelta(days=r.randrange(14000))
        same_day = i % 2 == 0
        b = a if same_day else a + timedelta(days=r.choice([1, 2, 30, 365]))
        if b.year > 2029:
            continue
        ha, hb = r.randrange(24), r.randrange(24)
        ma, mb = r.choice([0, 15, 30, 45]), r.choice([0, 15, 30, 45])
        # an end may be written without minutes ('12 uhr', "12 o'clock"); every third pair lies within one hour
        fa, fb = r.choice(["hm", "hm", "uhr", "oclock"]), r.choice(["hm", "hm", "uhr", "oclock"])
        if i % 3 == 1:
            hb = ha
        if fa != "hm":
            ma = 0
        if fb != "hm":
            mb = 0
        if same_day and (ha, ma) == (hb, mb):
            continue
        cases.append({"k": "dtpair", "j": r.choice(["-", "to", "bis", "until"]), "a": a.isoformat(), "b": b.isoformat(), "ha": ha, "ma": ma, "hb": hb, "mb": mb,
                      "fa": fa, "fb": fb, "ts": C.iso(refs[i % len(refs)])})
    # ... and on neighbouring days at the calendar's seams (28/29 Feb/1 Mar in leap and other years, month and year ends),
    # with the first clock before, equal to and after the second
    seams = []
    for y in (2020, 2024, 2023, 2021, 2000, 2028):
        seams += [(date(y, 2, 28), date(y, 3, 1)), (date(y, 12, 31), date(y + 1, 1, 1)), (date(y, 4, 30), date(y, 5, 1)), (date(y, 1, 31), date(y, 2, 1))]
        if cal.mlen(y, 2) == 29:
            seams += [(date(y, 2, 28), date(y, 2, 29)), (date(y, 2, 29), date(y, 3, 1))]
    k2 = 0
    for a, b in seams:
        if not (1990 <= a.year and b.year <= 2029):
            continue
        for (ha, ma, hb, mb) in ((22, 0, 6, 0), (9, 0, 10, 0), (10, 30, 10, 30), (0, 0, 0, 0), (23, 59, 0, 0)):
            for rev in (0, 1):
                k2 += 1
                if tier != "thorough" and k2 % 2:
                    continue
                x, z = (b, a) if rev else (a, b)
                cases.append({"k": "dtpair", "j": ["-", "to", "bis", "until"][k2 % 4], "a": x.isoformat(), "b": z.isoformat(), "ha": ha, "ma": ma, "hb": hb, "mb": mb,
                              "fa": "hm", "fb": "hm", "ts": C.iso(refs[k2 % len(refs)])})
    # half-open
    xs = []
    for i in range(60 if tier == "thorough" else 12):
        d = d0 + timedelta(days=r.randrange(14600))
        h, mi = r.randrange(24), r.choice([0, 15, 30, 59])
        xs.append(("date", "%02d.%02d.%04d" % (d.day, d.month, d.year)))
        xs.append(("datetime", "%02d.%02d.%04d %02d:%02d" % (d.day, d.month, d.year, h, mi)))
        xs.append(("clock", "%d:%02d" % (h, mi)))
        xs.append(("clock-pm", "%d%s" % ((h % 12) or 12, "am" if h < 12 else "pm")))
    # (a bare weekday is not used: 'after friday' legitimately keeps the weekday un-anchored inside the interval)
    for x in ["tomorrow", "morgen", "heute 14:00", "tomorrow 8pm", "freitag 9 uhr", "5th of march", "12. mai", "next monday", "übermorgen"]:
        xs.append(("relative", x))
    for side, words in (("before", G.BEFORE_WORDS), ("after", G.AFTER_WORDS), ("notbefore", G.NOT_BEFORE_WORDS), ("notafter", G.NOT_AFTER_WORDS)):
        for w in words:
            for xk, x in xs:
                cases.append({"k": "halfopen", "side": side, "w": w, "xk": xk, "x": x, "ts": C.iso(refs[len(x) % len(refs)])})
    r.shuffle(cases)
    return cases


def _dt(v):
    return datetime(v[1], v[2], v[3], v[4] or 0, v[5] or 0)


def run_case(case, ctx):
    ts = C.parse_ts(case["ts"])
    k = case["k"]
    if k == "clock":
        return _clock(case, ctx, ts)
    if k == "datepair":
        return _datepair(case, ctx, ts)
    if k == "dtpair":
        return _dtpair(case, ctx, ts)
    return _halfopen(case, ctx, ts)


def _fail(ctx, text, ts, ok_fn, fam, msg, key, cls):
    """label with configuration E; ok_fn(result) decides"""
    try:
        rE = C.api(ctx, text, ts, max_stack_depth=0)
        e_ok = ok_fn(C.resv(rE))
    except Exception:
        e_ok = False
    sig = ("beam-truncation/" if e_ok else "wrong/") + fam
    return C.viol(sig, msg, key, cls)


def _clock(case, ctx, ts):
    hf = G.RANGE_HOUR_FORMS[case["hf"]]
    ha, ma, hb, mb = case["ha"], case["ma"], case["hb"], case["mb"]
    body = G.RANGE_JOIN[case["j"]].format(a=hf(ha, ma), b=hf(hb, mb))
    pre, day = _ctx(case["ctx"], ts)
    text = pre + body
    key = "clock|%s|%s" % (text, case["ts"])
    cls = "clock/%s/%s/%s" % (case["ctx"], case["j"], case["hf"])
    if day is None:
        day = cal.next_clock_strict(ts, ha, ma).date()
    start, ends = accepted_ends(day, ha, ma, hb, mb)

    def good(v):
        if not (v and v[0] == "I" and v[1] and v[2] and V.dated(v[1]) and V.dated(v[2])):
            return False
        if v[1][4] is None or v[2][4] is None:
            return False
        return _dt(v[1]) == start and _dt(v[2]) in ends and (v[1][5] or 0) == ma and (v[2][5] or 0) == mb

    r = C.api(ctx, text, ts)
    got = C.resv(r)
    if good(got):
        return C.ok(key, cls, nt=bool(ctx["mon"].case_rules), obs_={"text": text, "ts": case["ts"], "got": V.show(got)})
    inverted = bool(got and got[0] == "I" and got[1] and got[2] and V.dated(got[1]) and V.dated(got[2]) and _dt(got[1]) >= _dt(got[2]))
    fam = "clock/%s/%s%s" % (case["ctx"], "german-joiner+ampm" if (case["hf"] == "ham" and case["j"] in ("bis", "von-bis", "zwischen-und")) else
                             "oclock" if case["hf"] == "H o'clock" else "any",
                             "/inverted" if inverted else "")
    return _fail(ctx, text, ts, good, fam, "%r at %s: expected [%s .. %s], got %s via %s" % (text, ts, start, "|".join(map(str, ends)), V.show(got), C.obs(r)), key, cls)


def _datepair(case, ctx, ts):
    fn = G.DATE_NOTATIONS[case["n"]][0]
    a, b = date.fromisoformat(case["a"]), date.fromisoformat(case["b"])
    key = "datepair|%s|%s|%s|%s|%d" % (case["j"], case["n"], case["a"], case["b"], case["rev"])
    cls = "datepair/%s/%s/%s" % (case["j"], case["n"], "reversed" if case["rev"] else "ordered")
    if G.DATE_NOTATIONS[case["n"]][1].get("named") and (G.reads_as_military(a.year) or G.reads_as_military(b.year)):
        return {"st": "excl", "sig": "named-month-notation:year-reads-as-military-time", "key": key, "cls": cls}
    x, y = (b, a) if case["rev"] else (a, b)
    text = G.RANGE_JOIN[case["j"]].format(a=fn(x.year, x.month, x.day), b=fn(y.year, y.month, y.day))
    r = C.api(ctx, text, ts)
    got = C.resv(r)
    if case["rev"]:
        inverted = bool(got and got[0] == "I" and got[1] and got[2] and V.dated(got[1]) and V.dated(got[2]) and _dt(got[1]) > _dt(got[2]))
        if not inverted:
            return C.ok(key, cls, nt=bool(ctx["mon"].case_rules), obs_={"text": text, "got": V.show(got)})
        return C.viol("datepair/reversed/inverted-interval", "%r: inverted interval %s via %s" % (text, V.show(got), C.obs(r)), key, cls)
    exp = ("I", V.T(a.year, a.month, a.day), V.T(b.year, b.month, b.day))
    if got == exp:
        return C.ok(key, cls, nt=bool(ctx["mon"].case_rules), obs_={"text": text, "got": V.show(got)})
    return _fail(ctx, text, ts, lambda v: v == exp, "datepair/%s" % case["n"], "%r: expected %s, got %s via %s" % (text, V.show(exp), V.show(got), C.obs(r)), key, cls)


def _dtpair(case, ctx, ts):
    a, b = date.fromisoformat(case["a"]), date.fromisoformat(case["b"])
    A = datetime(a.year, a.month, a.day, case["ha"], case["ma"])
    B = datetime(b.year, b.month, b.day, case["hb"], case["mb"])
    def fmt(x, f):
        clock = {"hm": "%d:%02d" % (x.hour, x.minute), "uhr": "%d uhr" % x.hour, "oclock": "%d o'clock" % x.hour}[f]
        return "%02d.%02d.%04d %s" % (x.day, x.month, x.year, clock)
    fa, fb = case.get("fa", "hm"), case.get("fb", "hm")
    text = G.RANGE_JOIN[case["j"]].format(a=fmt(A, fa), b=fmt(B, fb))
    key = "dtpair|" + text
    ordered = A < B
    cls = "dtpair/%s/%s/%s" % (case["j"], "same-day" if a == b else "other-day", "ordered" if ordered else "reversed")
    r = C.api(ctx, text, ts)
    got = C.resv(r)
    inverted = bool(got and got[0] == "I" and got[1] and got[2] and V.dated(got[1]) and V.dated(got[2]) and _dt(got[1]) >= _dt(got[2]))
    if inverted:
        return C.viol("dtpair/inverted-interval", "%r: start not before end: %s via %s" % (text, V.show(got), C.obs(r)), key, cls)
    if not ordered:
        return C.ok(key, cls, nt=bool(ctx["mon"].case_rules), obs_={"text": text, "got": V.show(got)})
    exp = ("I", V.T(A.year, A.month, A.day, A.hour, A.minute), V.T(B.year, B.month, B.day, B.hour, B.minute))
    # an end written without minutes may leave the minute unspecified (read as :00, as in C06)
    exps = [("I", V.T(A.year, A.month, A.day, A.hour, ma_), V.T(B.year, B.month, B.day, B.hour, mb_))
            for ma_ in ([A.minute] if fa == "hm" else [0, None]) for mb_ in ([B.minute] if fb == "hm" else [0, None])]
    if got in exps:
        return C.ok(key, cls, nt=True, obs_={"text": text, "got": V.show(got)})
    return _fail(ctx, text, ts, lambda v: v in exps, "dtpair/%s" % ("same-day" if a == b else "other-day"),
                 "%r: expected %s, got %s via %s" % (text, V.show(exp), V.show(got), C.obs(r)), key, cls)


def _halfopen(case, ctx, ts):
    text = "%s %s" % (case["w"], case["x"])
    key = "halfopen|%s|%s" % (text, case["ts"])
    cls = "halfopen/%s/%s/%s" % (case["side"], case["w"], case["xk"])
    # what X alone denotes (latent off: X may legitimately stay undated inside the interval)
    rx = C.api(ctx, case["x"], ts, latent_time=False)
    xv = C.resv(rx)
    if xv is None or xv[0] != "T":
        return {"st": "inconc", "msg": "grammar: %r alone does not resolve to a time (%s)" % (case["x"], V.show(xv))}
    upper = case["side"] in ("before", "notafter")
    exp = ("I", None, xv) if upper else ("I", xv, None)
    r = C.api(ctx, text, ts)
    got = C.resv(r)
    if got == exp:
        return C.ok(key, cls, nt=bool(ctx["mon"].case_rules), obs_={"text": text, "got": V.show(got)})
    what = "other"
    if got and got[0] == "I":
        if (got[1] is None) != (exp[1] is None):
            what = "wrong-side"
        elif got[1] is not None and got[2] is not None:
            what = "both-sides-bounded"
        else:
            what = "bound-value"
    elif got and got[0] == "T":
        what = "not-an-interval"
    return _fail(ctx, text, ts, lambda v: v == exp, "halfopen/%s/%s/%s" % (case["w"], case["xk"], what),
                 "%r at %s: expected %s, got %s via %s" % (text, ts, V.show(exp), V.show(got), C.obs(r)), key, cls)


def post_check(results, summaries, events, rules, tier):
    if not events.get("api_return"):
        yield ("inconclusive", "API monitor observed no call")
    need = ["ruleTODTOD", "ruleDateInterval", "ruleDateDate", "ruleBeforeTime", "ruleAfterTime", "ruleAbsorbFromInterval"]
    silent = [n for n in need if not rules.get(n)]
    if silent:
        yield ("inconclusive", "rules never observed to fire: %s" % silent)
