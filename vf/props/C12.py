"""C12 — a parse is a pure function of its arguments: no history, threads or
hash seed.  History recorder at the API, write barriers and digests on the
shared model and rule base, reference table from fresh processes."""
import itertools
import json
import os
import subprocess
import sys
import threading
import time
from concurrent.futures import ThreadPoolExecutor

from .. import env
from ..gen import texts as T
from ..spec import grammar as G, values as V
from . import common as C

TITLE = "purity: history, threads, hash seed"
LEVEL = "exploration"
RULE = ("a pool of (text, reference time, options) entries is evaluated in fresh interpreters under PYTHONHASHSEED 0, 1, 2 "
        "and random (reference table; the four tables must agree). case kinds: history = a seeded random sequence of calls "
        "over the pool in one long-lived process (same text under other ts/options, abandoned and closed streams, calls "
        "that raise on wrong argument types), every result compared with the table, model/rule-base digests and write "
        "barriers checked; interleave = ALL interleavings of the first <=6 steps of two streams (924 schedules per pair), "
        "each stream must yield its solo sequence; threads = 8 threads with a 1 microsecond switch interval, with and "
        "without line-level yield injection (sys.monitoring LINE), every result compared with the table; overlapping call "
        "pairs and distinct switch sites are counted. non-trivial history = it contained a repeat of an entry after other "
        "calls; distinct on the case id.")
ASSUMPTIONS = ["timeout=0 throughout (a wall-clock deadline is load dependent by construction); the shared-RNG RandomScorer is excluded",
               "zero observed overlap in the thread runs is inconclusive, not held"]
WATCHDOG_S = {"quick": 1200, "thorough": 7200}

_PRE = {"results": [], "summaries": []}


def _pool(seed, n):
    from ..attach import lib
    lib()
    r = C.rng(seed, "C12pool")
    texts = ["tomorrow 8pm", "8:00 pm", "12.12.2020", "monday", "#work call mom tomorrow at 5pm #family", "gargelbabel", "", "9-5", "23:00 - 3:00",
             "am 5. märz um 14 uhr", "3 days 15.11.2021 - 18.11.2021", "heute abend", "the 5th of march 2021 at 3 o'clock", "übermorgen früh",
             "from 8 to 10", "between 9:00 and 17:00 on friday", "half past eight", "dreißig tage", "31.04.2018", "late very late evening"]
    # the same tokens in another order (state keyed on an order-insensitive summary of an earlier text shows up here)
    for base in ["next week on friday", "tomorrow at 5pm", "morgen um 8 uhr", "monday morning 9 to 5", "am freitag von 8 bis 10", "5th of march at noon",
                 "on friday 12.03.2021 at 8:30", "heute abend um 20 uhr"]:
        toks = base.split()
        texts.append(base)
        texts.append(" ".join(toks[::-1]))
        texts.append(" ".join(toks[1:] + toks[:1]))
    corp = T.corpus_texts()
    from . import streams as S
    cov = [e["t"] for e in S.cov_entries()] or corp
    covset = set(cov)
    while len(texts) < n:
        texts.append(r.choice([G.expression(r)[1], r.choice(corp), T.soup(r), r.choice(cov)]))
    tss = ["2021-03-10T12:43:30", "2020-02-29T23:59:59.999999", "2019-12-31T08:00:00", "2024-02-28T23:10:00"]
    entries = []
    for i, t in enumerate(texts):
        o = {"latent_time": i % 3 != 1, "max_stack_depth": [10, 10, 0, 1][i % 4], "relative_match_len": [1.0, 1.0, 0.5][i % 3],
             "scorer": "constant" if i % 5 == 4 else "shipped"}
        if t in covset and o["max_stack_depth"] == 0:
            o["max_stack_depth"] = 10      # (texts of the coverage corpus are long soups: the exhaustive search on them takes minutes)
        entries.append({"t": t, "ts": tss[i % len(tss)], "o": o})
    # the same reference-time dependent text under reference times that share the year and month (and the day): state keyed
    # on a coarse summary of the reference time shows up here
    for t in ["monday 3rd", "friday 13th", "the 5th", "tomorrow", "next friday", "8:00", "am 20.", "sunday", "end of month", "mittwoch den 12."]:
        for tsx in ("2020-02-01T09:00:00", "2020-02-10T09:00:00", "2020-02-10T21:30:00", "2020-02-25T00:00:00"):
            entries.append({"t": t, "ts": tsx, "grp": "same-month/" + t, "o": {"latent_time": True, "max_stack_depth": 10, "relative_match_len": 1.0, "scorer": "shipped"}})
    # ... and under reference times that share only the year (other months)
    for t in ["tomorrow 2025", "5 march 2024", "1730 uhr", "heute 2020", "morgen 0900", "friday 2030"]:
        for tsx in ("2024-11-10T10:00:00", "2024-03-10T10:00:00", "2019-11-05T08:00:00", "2019-02-05T08:00:00"):
            entries.append({"t": t, "ts": tsx, "grp": "same-year/" + t, "o": {"latent_time": True, "max_stack_depth": 10, "relative_match_len": 1.0, "scorer": "shipped"}})
    # the same text in another letter case / with other separators (state keyed on a normalised or lower-cased text)
    for t in ["lunch tomorrow 5pm bob #work", "call anna am freitag um 8 uhr", "report due end of month #q"]:
        for v in (t, t.title(), t.upper(), t.replace(" ", ", ")):
            entries.append({"t": v, "ts": "2021-03-10T12:43:30", "grp": "case-sep/" + t, "o": {"latent_time": True, "max_stack_depth": 10, "relative_match_len": 1.0, "scorer": "shipped"}})
    # one calendar day whose existence depends on the year, written for years of either kind (a verdict memoised without
    # the year survives from one call to the next)
    for t, tsx in [("29.02.2021 10:00", "2021-03-10T12:43:30"), ("29.02.2020 10:00", "2021-03-10T12:43:30"), ("29 feb 2019 9-11 uhr", "2021-03-10T12:43:30"),
                   ("29.02.2024", "2023-06-01T08:00:00"), ("february 29th 2023 9-5", "2024-01-05T08:00:00"), ("29.02.", "2021-03-10T12:43:30"),
                   ("29.02.", "2023-12-31T23:00:00"), ("am 29. februar", "2019-02-27T10:00:00"), ("29.02.2023 für 2 tage", "2020-02-29T23:59:59"),
                   ("29 february 2028 at noon", "2022-04-30T18:05:00")]:
        entries.append({"t": t, "ts": tsx, "grp": "leap-day", "o": {"latent_time": True, "max_stack_depth": 10, "relative_match_len": 1.0, "scorer": "shipped"}})
    # the same texts scored by a user's own naive-Bayes model next to the shipped one (anything memoised per rule sequence
    # without regard to WHICH model scored it leaks from one scorer to the other)
    for t in ["tomorrow 8pm", "May 5th at 3", "am 5. märz um 14 uhr", "monday morning 9 to 5", "heute abend", "12.12.2020"]:
        for sc in ("shipped", "trained", "shipped"):
            entries.append({"t": t, "ts": "2021-03-10T12:43:30", "grp": "two-models/" + t, "o": {"latent_time": True, "max_stack_depth": 10, "relative_match_len": 1.0, "scorer": sc}})
    # several labels, one of them written twice, with and without a time expression (anything that passes labels or words
    # through a set shows its dependence on the string-hash seed here)
    for t in ["#family call mom #urgent tomorrow 5pm #phone #family", "#b2 #a1 #c3 #b2 note for bob", "pay rent #home #money #home #q1 am freitag",
              "#zeta #alpha #mid #alpha #zeta #omega", "walk the dog #dog #park #dog #park #rain heute abend"]:
        entries.append({"t": t, "ts": "2021-03-10T12:43:30", "o": {"latent_time": True, "max_stack_depth": 10, "relative_match_len": 1.0, "scorer": "shipped"}})
    # the same text under different ts / options
    for i in range(0, min(12, len(texts))):
        entries.append({"t": texts[i], "ts": tss[(i + 1) % len(tss)], "o": {"latent_time": i % 2 == 0, "max_stack_depth": 10, "relative_match_len": 1.0, "scorer": "shipped"}})
    return entries


def _tables(entries, hashseeds, workdir, per_proc):
    jobs = []
    for hs in hashseeds:
        idx = list(enumerate(entries))
        for a in range(0, len(idx), per_proc):
            jobs.append((hs, idx[a:a + per_proc]))
    os.makedirs(workdir, exist_ok=True)

    def run(job_i):
        j, (hs, chunk) = job_i
        p = os.path.join(workdir, "pure%03d.json" % j)
        with open(p, "w") as fd:
            json.dump({"entries": chunk}, fd)
        pr = subprocess.run([env.PY, "-m", "vf.tools.pure_eval", p], cwd=env.VERIF, env=env.child_env(hashseed=None if hs == "random" else hs),
                            capture_output=True, text=True, timeout=600)
        os.unlink(p)
        if pr.returncode != 0:
            return hs, None, pr.stderr[-400:]
        return hs, json.loads(pr.stdout), None

    tables = {hs: {} for hs in hashseeds}
    digests = {hs: set() for hs in hashseeds}
    errors = []
    with ThreadPoolExecutor(16) as ex:
        for hs, out, err in ex.map(run, list(enumerate(jobs))):
            if out is None:
                errors.append("hashseed %s: %s" % (hs, err))
                continue
            tables[hs].update(out["table"])
            digests[hs].add(out["digest"])
    return tables, digests, errors


def gen_cases(tier, seed):
    _PRE["results"][:] = []
    _PRE["summaries"][:] = []
    n = 80 if tier == "thorough" else 50
    entries = _pool(seed, n)
    workdir = os.path.join(env.OUT, "out", "work", "C12-tables-%d" % os.getpid())
    hss = ["0", "1", "2", "random"] if tier == "thorough" else ["0", "1", "random"]
    tables, digests, errors = _tables(entries, hss, workdir, per_proc=1)
    try:
        os.rmdir(workdir)
    except OSError:
        pass
    ref = tables["0"]
    if errors or len(ref) != len(entries):
        _PRE["results"].append({"st": "inconc", "msg": "reference table incomplete: %s" % errors[:2]})
        return []
    nproc = 0
    for hs in hss:
        bad = [i for i in ref if tables[hs].get(i) != ref[i]]
        nproc += 1
        case = {"k": "hashseed", "hs": hs}
        if bad:
            i = bad[0]
            _PRE["results"].append({"st": "viol", "sig": "hashseed-dependent", "msg": "PYTHONHASHSEED=%s: entry %r gives %r, under seed 0 %r" % (hs, entries[int(i)], tables[hs].get(i), ref[i]),
                                    "key": "hashseed/" + hs, "cls": "hashseed", "nt": True, "case": case})
        elif len(digests[hs] | digests["0"]) != 1:
            _PRE["results"].append({"st": "viol", "sig": "model-digest-differs-between-processes", "msg": "digests %s" % sorted(digests[hs] | digests["0"]), "key": "hashseed/" + hs, "cls": "hashseed", "nt": True, "case": case})
        else:
            _PRE["results"].append({"st": "ok", "key": "hashseed/" + hs, "cls": "hashseed", "nt": True, "case": case,
                                    "obs": {"hashseed": hs, "entries_equal_to_seed0": len(ref), "fresh_processes": len(entries)}})
    _PRE["summaries"].append({"_summary": True, "events": {"fresh_process_table_entries": len(ref) * len(hss)}, "rules_fired": {}, "extra": {}})
    digest = sorted(digests["0"])[0]
    shared = {"entries": entries, "ref": ref, "digest": digest}
    cases = []
    for i in range(60 if tier == "thorough" else 16):
        cases.append(dict(shared, k="history", i=i, n=90))
    # near-duplicate groups run back to back in one process, forwards and backwards (deterministic adjacency)
    cases.append(dict(shared, k="groups"))
    # fixed pool entries with the longest solo streams first (10, 5, 10, 14, 4, 3 candidates)
    pairs = [(8, 12), (14, 9), (12, 14), (8, 8), (10, 4), (9, 13), (14, 14), (8, 0), (12, 1), (4, 13), (14, 10), (9, 9)]
    for a, b in (pairs if tier == "thorough" else pairs[:3]):
        cases.append({"k": "interleave", "a": entries[a], "b": entries[b], "steps": 6 if tier == "thorough" else 5})
    for i in range(8 if tier == "thorough" else 4):
        cases.append(dict(shared, k="threads", i=i, inject=bool(i % 2), calls=(60 if tier == "thorough" else 40) if not i % 2 else (20 if tier == "thorough" else 10)))
    return cases


def run_special(tier, seed, workdir):
    return list(_PRE["results"]), list(_PRE["summaries"])


# ---------------------------------------------------------------------------
class _LogDict(dict):
    log = None

    def _w(self, what):
        self.log.append(what)

    def __setitem__(self, k, v):
        self._w(("dict.__setitem__", k))
        return dict.__setitem__(self, k, v)

    def __delitem__(self, k):
        self._w(("dict.__delitem__", k))
        return dict.__delitem__(self, k)

    def update(self, *a, **k):
        self._w(("dict.update",))
        return dict.update(self, *a, **k)

    def pop(self, *a):
        self._w(("dict.pop",))
        return dict.pop(self, *a)

    def clear(self):
        self._w(("dict.clear",))
        return dict.clear(self)

    def setdefault(self, k, d=None):
        if k not in self:
            self._w(("dict.setdefault", k))
        return dict.setdefault(self, k, d)


class _LogList(list):
    log = None

    def _w(self, what):
        self.log.append(what)

    def __setitem__(self, i, v):
        self._w(("list.__setitem__", i))
        return list.__setitem__(self, i, v)

    def append(self, v):
        self._w(("list.append",))
        return list.append(self, v)

    def extend(self, v):
        self._w(("list.extend",))
        return list.extend(self, v)

    def __iadd__(self, v):
        self._w(("list.__iadd__",))
        return list.__iadd__(self, v)

    def insert(self, i, v):
        self._w(("list.insert",))
        return list.insert(self, i, v)

    def pop(self, *a):
        self._w(("list.pop",))
        return list.pop(self, *a)

    def sort(self, *a, **k):
        self._w(("list.sort",))
        return list.sort(self, *a, **k)


def setup_worker(ctx):
    """write barriers on the shared model and the rule registry"""
    L = ctx["L"]
    log = ctx["barrier_log"] = []
    sc = L.m._DEFAULT_SCORER
    if type(sc).__name__ == "NaiveBayesScorer":
        mdl = sc._model
        d = _LogDict(mdl.transformer.vocabulary)
        d.log = log
        mdl.transformer.vocabulary = d
        for k in list(mdl.estimator.log_likelihood):
            ll = _LogList(mdl.estimator.log_likelihood[k])
            ll.log = log
            dict.__setitem__(mdl.estimator.log_likelihood, k, ll)
        ld = _LogDict(mdl.estimator.log_likelihood)
        ld.log = log
        mdl.estimator.log_likelihood = ld
        # attribute writes on the shared objects themselves (scorer, pipeline, vectorizer, estimator): a memo kept there is
        # shared by every call and every thread
        for obj in (sc, mdl, mdl.transformer, mdl.estimator):
            cls = type(obj)

            def __setattr__(self, name, value, _cls=cls):
                log.append(("setattr", _cls.__name__, name))
                object.__setattr__(self, name, value)

            obj.__class__ = type(cls.__name__, (cls,), {"__setattr__": __setattr__, "__module__": cls.__module__})
    ctx["mon"].uninstall()   # the plain library: the monitors of other properties are not part of what is observed here
    ctx["fn_dicts"] = lambda: sorted((n, tuple(sorted(getattr(f, "__dict__", {}).keys()))) for n, (f, p) in L.rule.rules.items())


def _digest(L):
    from ..tools.pure_eval import model_digest
    return model_digest(L)


def _tuple(L, e):
    from ..tools.pure_eval import result_tuple
    return result_tuple(L, e)


def run_case(case, ctx):
    k = case["k"]
    if k == "history":
        return _history(case, ctx)
    if k == "interleave":
        return _interleave(case, ctx)
    if k == "groups":
        return _groups(case, ctx)
    return _threads(case, ctx)


def _groups(case, ctx):
    """every group of near-duplicate entries (same text under reference times that share year/month/day, same text in
    another case, the leap-day family) back to back in this process, forwards then backwards, against the fresh-process
    table"""
    L, mon = ctx["L"], ctx["mon"]
    entries, ref = case["entries"], case["ref"]
    groups = {}
    for i, e in enumerate(entries):
        if e.get("grp"):
            groups.setdefault(e["grp"], []).append(i)
    n = 0
    for g, idx in sorted(groups.items()):
        for order in (idx, idx[::-1], idx[1::2] + idx[::2]):
            for i in order:
                got = _tuple(L, entries[i])
                n += 1
                mon.events["group_call"] += 1
                if got != ref[str(i)]:
                    return C.viol("history-dependent-result/near-duplicates", "group %r in the order %s: entry %r gives %r, fresh process gave %r"
                                  % (g, order, entries[i], got, ref[str(i)]), "groups", "groups")
    return C.ok("groups", "groups", nt=n > 0, obs_={"groups": len(groups), "calls": n, "names": sorted(groups)[:6]})


def _history(case, ctx):
    L, mon = ctx["L"], ctx["mon"]
    r = C.rng(ctx["seed"], "C12h", case["i"])
    entries, ref = case["entries"], case["ref"]
    log = ctx["barrier_log"]
    log[:] = []
    d0 = _digest(L)
    f0 = ctx["fn_dicts"]()
    key = "history/%d" % case["i"]
    if d0 != case["digest"]:
        return C.viol("digest-differs-from-fresh-process", "model/rule-base digest in this long-lived process differs from a fresh one", key, "history")
    seen = set()
    repeats = 0
    hist = []
    for step in range(case["n"]):
        x = r.random()
        i = r.randrange(len(entries))
        e = entries[i]
        if x < 0.6:
            got = _tuple(L, e)
            mon.events["history_call"] += 1
            hist.append(("call", i))
            if got != ref[str(i)]:
                return C.viol("history-dependent-result", "after history %s entry %r gives %r, fresh process gave %r" % (hist[-12:], e, got, ref[str(i)]), key, "history")
            if i in seen:
                repeats += 1
            seen.add(i)
        elif x < 0.78:
            o = dict(e["o"])
            o["scorer"] = T.make_scorer(L, o["scorer"], 0)
            g = L.m.ctparse_gen(e["t"], ts=C.parse_ts(e["ts"]), timeout=0, **o)
            for _ in range(r.randrange(0, 3)):
                try:
                    next(g)
                except StopIteration:
                    break
            if r.random() < 0.5:
                g.close()
                hist.append(("closed-stream", i))
            else:
                ctx.setdefault("abandoned", []).append(g)   # left open on purpose
                ctx["abandoned"] = ctx["abandoned"][-5:]
                hist.append(("abandoned-stream", i))
            mon.events["history_abandoned_stream"] += 1
        else:
            bad = r.choice([(None, {}), (123, {}), (e["t"], {"ts": "yesterday"}), (e["t"], {"max_stack_depth": "x"}), (e["t"], {"relative_match_len": None}),
                            (["a"], {}), (e["t"], {"scorer": 5})])
            try:
                L.m.ctparse(bad[0], timeout=0, **bad[1])
                hist.append(("bad-args-accepted", repr(bad)))
            except Exception as ex:  # noqa
                hist.append(("raised", type(ex).__name__))
            mon.events["history_failing_call"] += 1
    if log:
        return C.viol("model-written", "write barrier fired during the history: %s" % log[:3], key, "history")
    if _digest(L) != d0 or ctx["fn_dicts"]() != f0:
        return C.viol("model-or-rulebase-digest-changed", "digest / rule-function attributes changed across the history", key, "history")
    return C.ok(key, "history", nt=repeats > 0, obs_={"history_tail": hist[-8:], "calls": len([h for h in hist if h[0] == "call"]), "repeats_after_other_calls": repeats})


def _stream(L, e):
    from ..tools.pure_eval import stream_tuples
    return stream_tuples(L, e)


def _interleave(case, ctx):
    L, mon = ctx["L"], ctx["mon"]
    a, b = case["a"], case["b"]
    solo = [_stream(L, a), _stream(L, b)]
    na, nb = min(case["steps"], len(solo[0]) + 1), min(case["steps"], len(solo[1]) + 1)   # +1: the StopIteration step
    key = "interleave/%s|%s" % (a["t"], b["t"])

    def mk(e):
        o = dict(e["o"])
        o["scorer"] = T.make_scorer(L, o["scorer"], 0)
        return L.m.ctparse_gen(e["t"], ts=C.parse_ts(e["ts"]), timeout=0, **o)

    def tup(p):
        return None if p is None else [V.jsonable(V.full(p.resolution)), [str(x) for x in p.production], repr(p.score), p.subject, p.labels]

    nsched = 0
    for sched in itertools.combinations(range(na + nb), na):
        order = [0 if i in set(sched) else 1 for i in range(na + nb)]
        gens = [mk(a), mk(b)]
        outs = [[], []]
        done = [False, False]
        for w in order:
            if done[w]:
                continue
            try:
                outs[w].append(tup(next(gens[w])))
            except StopIteration:
                done[w] = True
        for w in (0, 1):   # exhaust the rest, one after the other
            if not done[w]:
                for p in gens[w]:
                    outs[w].append(tup(p))
        nsched += 1
        mon.events["schedule_executed"] += 1
        for w in (0, 1):
            if outs[w] != solo[w]:
                return C.viol("interleaving-dependent-stream", "schedule %s: stream %d (%r) yields %d items differing from its solo run (%d)" % (
                    order, w, (a, b)[w]["t"], len(outs[w]), len(solo[w])), key, "interleave")
    return C.ok(key, "interleave", nt=nsched > 1, obs_={"a": a["t"], "b": b["t"], "steps": [na, nb], "schedules": nsched, "solo_lengths": [len(solo[0]), len(solo[1])]},
                ev={"interleave_pairs": 1})


def _threads(case, ctx):
    L, mon = ctx["L"], ctx["mon"]
    entries, ref = case["entries"], case["ref"]
    log = ctx["barrier_log"]
    log[:] = []
    d0 = _digest(L)
    key = "threads/%d/%s" % (case["i"], "inject" if case["inject"] else "plain")
    NT = 8
    lock = threading.Lock()
    hist = []      # (thread, 'call'|'ret', entry, t)
    bad = []
    sites = set()
    nswitch = [0]
    old_si = sys.getswitchinterval()
    sys.setswitchinterval(1e-6)
    monid = None
    if case["inject"]:
        monid = 4
        M = sys.monitoring
        M.use_tool_id(monid, "vf-yield")
        root = os.path.join(env.REPO, "ctparse") + os.sep
        cnt = [0]

        def on_line(code, line):
            if not code.co_filename.startswith(root):
                return M.DISABLE
            cnt[0] += 1
            if cnt[0] % 101 == 0:
                sites.add((os.path.basename(code.co_filename), line))
                nswitch[0] += 1
                time.sleep(0)
            return None

        M.register_callback(monid, M.events.LINE, on_line)
        M.set_events(monid, M.events.LINE)

    def work(tid):
        r = C.rng(ctx["seed"], "C12t", case["i"], tid)
        for _ in range(case["calls"]):
            i = r.randrange(len(entries))
            with lock:
                hist.append((tid, "call", i, len(hist)))
            try:
                got = _tuple(L, entries[i])
            except Exception as ex:  # noqa
                got = ["RAISES", type(ex).__name__]
            with lock:
                hist.append((tid, "ret", i, len(hist)))
                if got != ref[str(i)]:
                    bad.append((tid, i, got))

    ths = [threading.Thread(target=work, args=(t,)) for t in range(NT)]
    try:
        for t in ths:
            t.start()
        for t in ths:
            t.join()
    finally:
        sys.setswitchinterval(old_si)
        if monid is not None:
            sys.monitoring.set_events(monid, 0)
            sys.monitoring.free_tool_id(monid)
    # overlapping call pairs: a call event of one thread between call and ret of another
    open_ = {}
    overlaps = 0
    for tid, kind, i, _ in hist:
        if kind == "call":
            overlaps += len(open_)
            open_[tid] = i
        else:
            open_.pop(tid, None)
    mon.events["thread_calls"] += NT * case["calls"]
    mon.events["overlapping_call_pairs"] += overlaps
    mon.events["yield_injections"] += nswitch[0]
    if bad:
        tid, i, got = bad[0]
        return C.viol("thread-dependent-result", "%d of %d calls differ under 8 threads; thread %d entry %r gave %r, fresh process %r" % (
            len(bad), NT * case["calls"], tid, entries[i], got, ref[str(i)]), key, "threads")
    if log:
        return C.viol("model-written", "write barrier fired under threads: %s" % log[:3], key, "threads")
    if _digest(L) != d0:
        return C.viol("model-or-rulebase-digest-changed", "digest changed under threads", key, "threads")
    if overlaps == 0:
        return {"st": "inconc", "msg": "no overlapping call pair was observed in the 8-thread run", "key": key}
    return C.ok(key, "threads", nt=True, obs_={"threads": NT, "calls": NT * case["calls"], "overlapping_call_pairs": overlaps, "yield_injection": case["inject"],
                                              "distinct_switch_sites": len(sites), "injected_yields": nswitch[0]})


def post_check(results, summaries, events, rules, tier):
    need = ("history_call", "group_call", "history_abandoned_stream", "history_failing_call", "schedule_executed", "thread_calls", "overlapping_call_pairs", "fresh_process_table_entries")
    miss = [k for k in need if not events.get(k)]
    if miss:
        yield ("inconclusive", "events never observed: %s" % miss)
