"""C14 — the returned parse is a best-scoring candidate of the stream; scores
are finite.  ONE execution per case: a tee on the ctparse_gen that ctparse()
itself consumes and on _ctparse (pre-latent)."""
import json
import zlib
import math

from ..spec import values as V
from . import common as C, streams as S

TITLE = "returned parse is a best candidate"
LEVEL = "exploration"
RULE = ("case = (text, reference time, options) from the C01 generators, timeout 0; the single-result call is executed once "
        "with tees on the stream it consumes (post-latent) and on the inner search (pre-latent). Oracle: the returned "
        "object is one of the tee'd candidates with maximal score and the same resolution/production/subject/labels; an "
        "empty resolution iff the tee saw no candidate; every score a finite float; pre-latent a value repeats only with a "
        "strictly higher score. non-trivial = the tee saw >= 2 candidates; distinct on (text, reference time, options).")
ASSUMPTIONS = ["step budget as in C01", "value identity by the independent value model (span excluded), as the property says 'resolution value'"]


def gen_cases(tier, seed):
    cases = S.gen(tier, seed, "C14", 7000, 150000)
    for c in cases:
        c["o"]["debug"] = False
    return cases


def run_case(case, ctx):
    L, mon = ctx["L"], ctx["mon"]
    m = L.m
    ts = C.parse_ts(case["ts"])
    o, _ = S.opts(case, L)
    key = json.dumps([case["t"], case["ts"], case["o"]], ensure_ascii=False, sort_keys=True)
    cls = case["g"]
    C.perturb(ctx, case["t"], ts, {k: v for k, v in o.items() if k != "timeout"})
    post, pre = [], []
    orig_gen, orig_inner = m.ctparse_gen, m._ctparse

    snaps = {}

    def tee_gen(*a, **k):
        for p in orig_gen(*a, **k):
            post.append(p)
            if p is not None:
                snaps[id(p)] = (V.full(p.resolution), p.production, p.score, p.subject, list(p.labels) if p.labels is not None else None)
            mon.events["tee_post"] += 1
            yield p

    def tee_inner(*a, **k):
        for p in orig_inner(*a, **k):
            if p is not None:
                pre.append((V.val(p.resolution), p.score))
            mon.events["tee_pre"] += 1
            yield p

    m.ctparse_gen, m._ctparse = tee_gen, tee_inner
    try:
        mon.begin()
        try:
            res = m.ctparse(case["t"], ts=ts, **o)
        except Exception as e:  # noqa (C01's subject)
            return {"st": "skip", "sig": "call-raises:%s (C01)" % type(e).__name__, "key": key, "cls": cls}
    finally:
        m.ctparse_gen, m._ctparse = orig_gen, orig_inner
    mon.events["single_result_call"] += 1
    cands = [p for p in post if p is not None]
    pr = []
    # "the candidates the streaming call yields under identical arguments": a streaming call of our own (the tee above
    # only sees what ctparse() chose to consume) - for every short text and a third of the others
    # (not with the random scorer: its generator has moved on, the two calls would not have identical arguments)
    if case["o"].get("scorer") != "random" and (len(case["t"].strip()) <= 3 or zlib.crc32(key.encode("utf-8")) % 3 == 0):
        o2, _ = S.opts(case, L)
        try:
            own = [(V.full(p.resolution), p.production, p.score, p.subject, list(p.labels) if p.labels is not None else None)
                   for p in orig_gen(case["t"], ts=ts, **o2) if p is not None]
        except Exception as e:  # noqa (C01's subject)
            return {"st": "skip", "sig": "stream-raises:%s (C01)" % type(e).__name__, "key": key, "cls": cls}
        mon.events["own_stream_compared"] += 1
        seen_by_call = [snaps[id(p)] for p in cands]
        if own != seen_by_call:
            pr.append(("single-call-consumed-another-stream", "the streaming call yields %d candidates under the same arguments, ctparse() consumed %d%s" % (
                len(own), len(seen_by_call), "" if len(own) != len(seen_by_call) else " (different ones)")))
    for p in cands:
        if not (isinstance(p.score, float) and math.isfinite(p.score)):
            pr.append(("score-not-finite", "candidate %s has score %r" % (V.show(V.val(p.resolution)), p.score)))
            break
    if not pr:
        if not cands:
            if res is None or res.resolution is not None:
                pr.append(("nonempty-without-candidates", "stream was empty but result is %r" % (res,)))
        else:
            if res is None or res.resolution is None:
                pr.append(("empty-although-candidates", "stream yielded %d candidates, result has no resolution" % len(cands)))
            else:
                best = max(p.score for p in cands)
                same = [p for p in cands if p is res]
                if same and snaps.get(id(res)) != (V.full(res.resolution), res.production, res.score, res.subject, list(res.labels) if res.labels is not None else None):
                    pr.append(("returned-object-differs-from-what-was-streamed", "streamed %r, returned %r" % (
                        snaps.get(id(res)), (V.full(res.resolution), res.production, res.score, res.subject, res.labels))))
                if not same:
                    same = [p for p in cands if V.full(p.resolution) == V.full(res.resolution) and p.production == res.production
                            and p.score == res.score and p.subject == res.subject and p.labels == res.labels]
                if not same:
                    pr.append(("not-a-stream-candidate", "returned %s %r score %r is none of the %d streamed candidates" % (
                        V.show(V.val(res.resolution)), res.production, res.score, len(cands))))
                elif res.score != best:
                    pr.append(("not-maximal", "returned score %r but the stream held %r (%s)" % (
                        res.score, best, V.show(V.val([p for p in cands if p.score == best][0].resolution)))))
    if not o.get("latent_time", True):
        # without latent anchoring the stream the caller sees IS the pre-latent stream: the same rule applies to it
        seen_post = {}
        for p in cands:
            v = V.val(p.resolution)
            if v in seen_post and not (p.score > seen_post[v]):
                pr.append(("value-repeated-without-higher-score", "(latent off) %s streamed with score %r after %r" % (V.show(v), p.score, seen_post[v])))
                break
            seen_post[v] = max(p.score, seen_post.get(v, p.score))
    seen = {}
    for v, s in pre:
        if v in seen and not (s > seen[v]):
            pr.append(("value-repeated-without-higher-score", "%s streamed with score %r after %r" % (V.show(v), s, seen[v])))
            break
        seen[v] = max(s, seen.get(v, s))
    if pr:
        return C.viol(pr[0][0] + ("/duration" if pr[0][0].startswith("value-rep") and "D" == (v[0] if pre else "") else ""),
                      "%r (ts=%s, %s): %s" % (case["t"], case["ts"], case["o"], pr[0][1]), key, cls)
    return C.ok(key, cls, nt=len(cands) >= 2, obs_={"text": case["t"], "candidates": len(cands), "returned": V.show(C.resv(res)), "best_score": (max(p.score for p in cands) if cands else None)})


def post_check(results, summaries, events, rules, tier):
    if not events.get("tee_post") or not events.get("tee_pre") or not events.get("single_result_call") or not events.get("own_stream_compared"):
        yield ("inconclusive", "tees observed nothing: %s" % {k: events.get(k) for k in ("tee_post", "tee_pre", "single_result_call")})
