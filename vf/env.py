"""Process environment shared by the coordinator and the workers.

* VERIF_REPO (default /repo) is the tree under observation; it is put in front
  of sys.path and every process asserts that ``ctparse`` really came from it.
* third-party helpers (icontract) live in <verif>/.deps, installed offline from
  the wheelhouse on demand (git-ignored, re-created inside a check when absent).
"""
import os
import subprocess
import sys
import warnings

VERIF = os.path.dirname(os.path.dirname(os.path.abspath(__file__)))
REPO = os.path.abspath(os.environ.get("VERIF_REPO", "/repo"))
DEPS = os.path.join(VERIF, ".deps")
# where a run writes evidence/, replays/ and out/ (default: /verif itself; trials against a scratch tree redirect it so
# that the committed evidence always comes from runs against /repo)
OUT = os.path.abspath(os.environ.get("VERIF_OUT", VERIF))
WHEELS = "/opt/veriftools/wheels"
PY = sys.executable or "/venv/bin/python"
GUARD = "QUICKADD_VERIF"


def ensure_deps():
    """Install icontract beside the repo's interpreter (offline)."""
    marker = os.path.join(DEPS, "icontract")
    if not os.path.isdir(marker):
        os.makedirs(DEPS, exist_ok=True)
        subprocess.run(
            [PY, "-m", "pip", "install", "--quiet", "--no-index", "--find-links",
             WHEELS, "--target", DEPS, "icontract"],
            check=False, stdout=subprocess.DEVNULL, stderr=subprocess.DEVNULL,
            env=dict(os.environ, PIP_NO_INDEX="1"),
        )
    return os.path.isdir(marker)


def setup_path():
    warnings.filterwarnings("ignore", category=SyntaxWarning)
    for p in (DEPS, REPO):
        if p in sys.path:
            sys.path.remove(p)
    sys.path.insert(0, REPO)
    sys.path.append(DEPS)


def import_repo():
    """Import ctparse from the tree under observation and return the
    ``ctparse.ctparse`` *module* (the package re-export shadows it)."""
    setup_path()
    os.environ.setdefault(GUARD, "1")
    import logging

    logging.disable(logging.WARNING)
    import ctparse  # noqa

    f = os.path.abspath(ctparse.__file__)
    if not f.startswith(REPO + os.sep):
        raise RuntimeError("ctparse imported from %s, expected under %s" % (f, REPO))
    return sys.modules["ctparse.ctparse"]


def child_env(extra=None, hashseed="0"):
    env = dict(os.environ)
    env["PYTHONPATH"] = os.pathsep.join([REPO, VERIF, DEPS])
    env["PYTHONDONTWRITEBYTECODE"] = "1"
    env["PYTHONWARNINGS"] = "ignore"
    env["VERIF_REPO"] = REPO
    env[GUARD] = "1"
    if hashseed is not None:
        env["PYTHONHASHSEED"] = str(hashseed)
    else:
        env.pop("PYTHONHASHSEED", None)
    if extra:
        env.update(extra)
    return env
