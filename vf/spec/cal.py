"""Calendar reference model (DESIGN 2.2): plain datetime/calendar arithmetic,
no dateutil."""
import calendar
from datetime import date, datetime, timedelta


def mlen(y, m):
    return calendar.monthrange(y, m)[1]


def add_days(d, n):
    return d + timedelta(days=n)


def eom(d):
    return date(d.year, d.month, mlen(d.year, d.month))


def eoy(d):
    return date(d.year, 12, 31)


def next_weekday_strict(d, dow):
    """first date strictly after d whose weekday is dow (0=Monday)"""
    n = (dow - d.weekday()) % 7
    return d + timedelta(days=n or 7)


def next_weekday_from(d, dow):
    """first date on or after d whose weekday is dow"""
    return d + timedelta(days=(dow - d.weekday()) % 7)


def next_dom_strict(d, dom):
    """first date strictly after d whose day of month is dom (skipping months
    that are too short)"""
    y, m = d.year, d.month
    for _ in range(60):
        if dom <= mlen(y, m):
            c = date(y, m, dom)
            if c > d:
                return c
        m += 1
        if m == 13:
            y, m = y + 1, 1
    raise ValueError(dom)


def next_doy_from(d, month, day):
    """first date on or after d with that month and day (29 Feb: next leap year)"""
    y = d.year
    for _ in range(12):
        if day <= mlen(y, month):
            c = date(y, month, day)
            if c >= d:
                return c
        y += 1
    raise ValueError((month, day))


def add_months(d, n):
    """month addition with end-of-month clipping; d may be date or datetime"""
    idx = d.year * 12 + (d.month - 1) + n
    y, m = divmod(idx, 12)
    m += 1
    return d.replace(year=y, month=m, day=min(d.day, mlen(y, m)))


def next_clock_strict(ts, hour, minute):
    """first datetime with that hh:mm strictly after the reference *minute*
    (asked at 20:00:30 for 20:00 -> tomorrow; asked at 19:59:59 -> today)"""
    c = datetime(ts.year, ts.month, ts.day, hour, minute)
    ref = datetime(ts.year, ts.month, ts.day, ts.hour, ts.minute)
    if c <= ref:
        c += timedelta(days=1)
    return c


def cycle_dates(y0=2016, y1=2043):
    d = date(y0, 1, 1)
    end = date(y1, 12, 31)
    out = []
    while d <= end:
        out.append(d)
        d += timedelta(days=1)
    return out


def boundary_dates(y0=2016, y1=2043):
    """month ends/starts, year ends, leap days and their neighbours"""
    s = set()
    for y in range(y0, y1 + 1):
        for m in range(1, 13):
            last = date(y, m, mlen(y, m))
            for k in (-1, 0, 1, 2):
                s.add(last + timedelta(days=k))
        for md in ((2, 27), (2, 28), (3, 1), (3, 2)):
            s.add(date(y, *md))
    return sorted(x for x in s if y0 <= x.year <= y1)
