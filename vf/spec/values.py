"""Independent structural value model of a resolution (DESIGN 2.1).

Never calls the library's ``__eq__``, ``__hash__`` or ``__str__``; reads plain
attributes only, so it can judge those methods.
"""
import calendar
import datetime as _dt

TIME_FIELDS = ("year", "month", "day", "hour", "minute", "DOW", "POD")


def kind(a):
    return type(a).__name__


def val(a):
    """Structural value of an artifact, span excluded."""
    if a is None:
        return None
    k = kind(a)
    if k == "Time":
        return ("T",) + tuple(getattr(a, f) for f in TIME_FIELDS)
    if k == "Interval":
        return ("I", val(a.t_from), val(a.t_to))
    if k == "Duration":
        u = a.unit
        return ("D", a.value, getattr(u, "value", u))
    if k == "RegexMatch":
        return ("R", a.id, a.mstart, a.mend)
    return ("?", k, repr(a))


def span(a):
    return (getattr(a, "mstart", None), getattr(a, "mend", None))


def full(a):
    """value + span (+ spans of interval ends): everything observable."""
    if a is None:
        return None
    k = kind(a)
    if k == "Interval":
        return (val(a), span(a), full(a.t_from), full(a.t_to))
    return (val(a), span(a))


def jsonable(v):
    if isinstance(v, tuple):
        return [jsonable(x) for x in v]
    return v


def T(year=None, month=None, day=None, hour=None, minute=None, DOW=None, POD=None):
    return ("T", year, month, day, hour, minute, DOW, POD)


def t_date(v):
    return (v[1], v[2], v[3])


def t_clock(v):
    return (v[4], v[5])


def show(v):
    if v is None:
        return "None"
    if v[0] == "T":
        f = lambda x, w: "X" if x is None else ("%0*d" % (w, x) if isinstance(x, int) else str(x))
        return "%s-%s-%s %s:%s (%s/%s)" % (f(v[1], 4), f(v[2], 2), f(v[3], 2), f(v[4], 2), f(v[5], 2), f(v[6], 1), f(v[7], 1))
    if v[0] == "I":
        return "[%s .. %s]" % (show(v[1]), show(v[2]))
    if v[0] == "D":
        return "%s %s" % (v[1], v[2])
    return repr(v)


def _is_int(x):
    return isinstance(x, int) and not isinstance(x, bool)


def time_problems(v, pod_keys):
    """Well-formedness of a ('T', ...) value; returns a list of problem tags."""
    _, y, mo, d, h, mi, dow, pod = v
    pr = []
    for name, x in (("year", y), ("month", mo), ("day", d), ("hour", h), ("minute", mi), ("DOW", dow)):
        if x is not None and not _is_int(x):
            pr.append("%s-not-int" % name)
            return pr
    if y is not None and not (1 <= y <= 9999):
        pr.append("year-range")
    if mo is not None and not (1 <= mo <= 12):
        pr.append("month-range")
    if h is not None and not (0 <= h <= 23):
        pr.append("hour-range")
    if mi is not None and not (0 <= mi <= 59):
        pr.append("minute-range")
    if dow is not None and not (0 <= dow <= 6):
        pr.append("dow-range")
    if pod is not None and pod not in pod_keys:
        pr.append("pod-unknown")
    if d is not None:
        if not (1 <= d <= 31):
            pr.append("day-range")
        elif mo is not None and 1 <= mo <= 12:
            if y is not None and 1 <= y <= 9999:
                if d > calendar.monthrange(y, mo)[1]:
                    pr.append("day-not-in-month")
            else:
                if d > (29 if mo == 2 else calendar.monthrange(2001, mo)[1]):
                    pr.append("day-not-in-month")
    return pr


def dated(v):
    return v is not None and v[0] == "T" and None not in (v[1], v[2], v[3])


def start_dt(v, pod_hours):
    """datetime of the start of a dated ('T',..) value by the documented
    convention (part of day -> its first hour), computed independently."""
    _, y, mo, d, h, mi, dow, pod = v
    if h is None and pod is not None:
        h = pod_hours[pod][0]
    return _dt.datetime(y, mo, d, h or 0, mi or 0)
