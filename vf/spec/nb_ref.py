"""Textbook multinomial naive Bayes over all 1..3-grams of a token sequence
(DESIGN C16): Laplace smoothing, exact counts, unknown n-grams ignored."""
from collections import Counter
from math import exp, log


def ngrams(doc, lo=1, hi=3):
    doc = list(doc)
    out = []
    for n in range(lo, hi + 1):
        for i in range(0, len(doc) - n + 1):
            out.append(" ".join(doc[i:i + n]))
    return out


def logsumexp(xs):
    m = max(xs)
    return m + log(sum(exp(x - m) for x in xs))


class RefNB:
    def __init__(self, docs, labels, alpha=1.0):
        """labels: +1 / -1 (or True/False)"""
        labels = [1 if (y is True or y == 1) else -1 for y in labels]
        self.vocab = set()
        cnt = {1: Counter(), -1: Counter()}
        ndoc = Counter()
        for d, y in zip(docs, labels):
            g = ngrams(d)
            self.vocab.update(g)
            cnt[y].update(g)
            ndoc[y] += 1
        V = len(self.vocab)
        self.log_prior = {c: log(ndoc[c] / (ndoc[1] + ndoc[-1])) for c in (1, -1)}
        tot = {c: sum(cnt[c].values()) + alpha * V for c in (1, -1)}
        self.log_lik = {c: {f: log((cnt[c][f] + alpha) / tot[c]) for f in self.vocab} for c in (1, -1)}

    def joint(self, doc):
        j = {}
        for c in (1, -1):
            s = self.log_prior[c]
            for f in ngrams(doc):
                if f in self.vocab:
                    s += self.log_lik[c][f]
            j[c] = s
        return j

    def predict_log_proba(self, doc):
        """(negative, positive) posterior log-probabilities"""
        j = self.joint(doc)
        z = logsumexp([j[-1], j[1]])
        return (j[-1] - z, j[1] - z)

    def log_odds(self, doc):
        n, p = self.predict_log_proba(doc)
        return p - n


def posterior_from_params(vocabulary, class_prior, log_likelihood, doc):
    """posterior recomputed from *fitted parameters* (the shipped model has no
    training data): independent n-gram extraction + plain sums"""
    neg, pos = class_prior[0], class_prior[1]
    for f in ngrams(doc):
        idx = vocabulary.get(f)
        if idx is not None:
            pos += log_likelihood["positive_class"][idx]
            neg += log_likelihood["negative_class"][idx]
    z = logsumexp([neg, pos])
    return (neg - z, pos - z)
