"""Specification grammar (DESIGN 2.3): surface forms taken from the library's
own vocabulary (the alternatives of its registered patterns at the pinned
commit), each paired with what it must mean.  Every table here was probed
against the pinned tree; nothing is invented."""

# ---------------------------------------------------------------------------
# relative days (C03)
# ---------------------------------------------------------------------------
REL = {
    "today": ["heute", "today", "todays", "um diese zeit", "zu dieser zeit", "um diesen zeitpunkt",
              "zu diesem zeitpunkt", "at this time"],
    "tomorrow": ["morgen", "tmrw", "tmr", "tomorrow", "tommorow", "tomorrows", "tommorrow", "tomorow"],
    "aftertomorrow": ["übermorgen"],
    "yesterday": ["gestern", "yesterday", "yesterdays"],
    "beforeyesterday": ["vorgestern", "vor gestern"],
    "now": ["jetzt", "genau jetzt", "genaujetzt", "diesen moment", "in diesem moment", "gerade eben", "now",
            "just now", "right now", "rightnow", "justnow", "immediately"],
    "eom": ["ende des monats", "ende dieses monats", "das ende des monats", "ende des monat", "eom", "the eom",
            "end of month", "end of the month", "the end of the month", "the end of month"],
    "eoy": ["eoy", "das eoy", "jahresende", "jahr ende", "jahres ende", "jahrende", "ende des jahres",
            "ende jahres", "ende jahr", "ende des jahr", "das ende des jahres", "the eoy", "end of year",
            "end of the year", "the end of the year", "the end of year"],
}
REL_OFFSET = {"today": 0, "tomorrow": 1, "aftertomorrow": 2, "yesterday": -1, "beforeyesterday": -2}

DOW = [
    ["montag", "montags", "monday", "mondays", "mon", "mo", "mon.", "mo."],
    ["dienstag", "dienstags", "dinstag", "die", "di", "di.", "die.", "tuesday", "tuesdays", "tue", "tu", "tue."],
    ["mittwoch", "mittwochs", "mi", "mi.", "wednesday", "wednesda", "wed", "wed."],
    ["donnerstag", "donerstag", "donnerstags", "do", "don", "do.", "thursday", "thursdays", "thu", "thur", "thu."],
    ["freitag", "freitags", "friday", "fridays", "fri", "fr", "fr.", "fri."],
    ["samstag", "samstags", "sonnabend", "sonnabends", "saturday", "saturdays", "sat", "sa", "sa.", "sat."],
    ["sonntag", "sonntags", "so", "so.", "sunday", "sundays", "sun", "su", "sun."],
]
# full names only (unambiguous in longer compositions)
DOW_FULL_EN = ["monday", "tuesday", "wednesday", "thursday", "friday", "saturday", "sunday"]
DOW_FULL_DE = ["montag", "dienstag", "mittwoch", "donnerstag", "freitag", "samstag", "sonntag"]

DOW_THIS_PRE = ["", "this ", "on ", "at ", "am ", "diesen ", "diesem "]
DOW_NEXT_PRE = ["next ", "following ", "the next ", "on the next ", "on next ", "at the next ", "next week ",
                "the following ", "kommenden ", "kommende ", "nächsten ", "nächste ", "am nächsten ",
                "am kommenden ", "den nächsten ", "dem nächsten ", "kommende woche ", "nächste woche ",
                "am dem nächsten "]
DOW_NEXT_POST = [" next week", " following week", " nächste woche", " kommende woche"]
