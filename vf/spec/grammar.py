"""Specification grammar (DESIGN 2.3): surface forms taken from the library's
own vocabulary (the alternatives of its registered patterns at the pinned
commit), each paired with what it must mean.  Every table here was probed
against the pinned tree; nothing is invented."""

# ---------------------------------------------------------------------------
# relative days (C03)
# ---------------------------------------------------------------------------
REL = {
    "today": ["heute", "today", "todays", "um diese zeit", "zu dieser zeit", "um diesen zeitpunkt",
              "zu diesem zeitpunkt", "at this time"],
    "tomorrow": ["morgen", "tmrw", "tmr", "tomorrow", "tommorow", "tomorrows", "tommorrow", "tomorow", "tommorows", "tommorrows", "tomorows"],
    "aftertomorrow": ["übermorgen"],
    "yesterday": ["gestern", "yesterday", "yesterdays"],
    "beforeyesterday": ["vorgestern", "vor gestern"],
    "now": ["jetzt", "genau jetzt", "genaujetzt", "diesen moment", "in diesem moment", "gerade eben", "now",
            "just now", "right now", "rightnow", "justnow", "immediately"],
    "eom": ["ende des monats", "ende dieses monats", "das ende des monats", "ende des monat", "eom", "the eom",
            "end of month", "end of the month", "the end of the month", "the end of month"],
    "eoy": ["eoy", "das eoy", "jahresende", "jahr ende", "jahres ende", "jahrende", "ende des jahres",
            "ende jahres", "ende jahr", "ende des jahr", "das ende des jahres", "the eoy", "end of year",
            "end of the year", "the end of the year", "the end of year"],
}
REL_OFFSET = {"today": 0, "tomorrow": 1, "aftertomorrow": 2, "yesterday": -1, "beforeyesterday": -2}

DOW = [
    ["montag", "montags", "monday", "mondays", "mon", "mo", "mon.", "mo."],
    ["dienstag", "dienstags", "dinstag", "die", "di", "di.", "die.", "tuesday", "tuesdays", "tue", "tu", "tue.", "tu.", "dinstags"],
    ["mittwoch", "mittwochs", "mi", "mi.", "wednesday", "wednesda", "wed", "wed."],
    ["donnerstag", "donerstag", "donnerstags", "do", "don", "do.", "thursday", "thursdays", "thu", "thur", "thu.", "thur.", "don.", "donerstags"],
    ["freitag", "freitags", "friday", "fridays", "fri", "fr", "fr.", "fri."],
    ["samstag", "samstags", "sonnabend", "sonnabends", "saturday", "saturdays", "sat", "sa", "sa.", "sat."],
    ["sonntag", "sonntags", "so", "so.", "sunday", "sundays", "sun", "su", "sun.", "su."],
]
DOW_DE_SPELLINGS = {"montag", "montags", "mo", "mo.", "dienstag", "dienstags", "dinstag", "dinstags", "die", "di", "di.", "die.", "mittwoch", "mittwochs", "mi", "mi.",
                    "donnerstag", "donerstag", "donnerstags", "donerstags", "do", "don", "do.", "don.", "freitag", "freitags", "fr", "fr.", "samstag", "samstags",
                    "sonnabend", "sonnabends", "sa", "sa.", "sonntag", "sonntags", "so", "so."}
# full names only (unambiguous in longer compositions)
DOW_FULL_EN = ["monday", "tuesday", "wednesday", "thursday", "friday", "saturday", "sunday"]
DOW_FULL_DE = ["montag", "dienstag", "mittwoch", "donnerstag", "freitag", "samstag", "sonntag"]

DOW_THIS_PRE = ["", "this ", "on ", "at ", "am ", "diesen ", "diesem "]
DOW_NEXT_PRE = ["next ", "following ", "the next ", "on the next ", "on next ", "at the next ", "next week ",
                "the following ", "kommenden ", "kommende ", "nächsten ", "nächste ", "am nächsten ",
                "am kommenden ", "den nächsten ", "dem nächsten ", "kommende woche ", "nächste woche ",
                "am dem nächsten "]
DOW_NEXT_POST = [" next week", " following week", " nächste woche", " kommende woche"]

# ---------------------------------------------------------------------------
# clock notations (C06, C05, C07, C20)
# ---------------------------------------------------------------------------


def _h12(h):
    return (h % 12) or 12


def _ap(h, a, p):
    return a if h < 12 else p


def _year_like(h, m):
    y = h * 100 + m
    return 1900 <= y <= 2029


# name -> (builder(h, m) -> text | None, flags)
# flags: 'hour_only' = the notation names a full hour and the library may leave
#        the minute unspecified (treated as 0); 'exclude' = predicate(h, m) ->
#        reason for a competing legitimate reading (DESIGN 2.3)
CLOCK = {
    "HH:MM": (lambda h, m: "%02d:%02d" % (h, m), {}),
    "H:MM": (lambda h, m: "%d:%02d" % (h, m), {}),
    "HhMM": (lambda h, m: "%dh%02d" % (h, m), {}),
    "HuhrMM": (lambda h, m: "%duhr%02d" % (h, m), {}),
    "H.MM": (lambda h, m: "%d.%02d" % (h, m),
             {"exclude": lambda h, m: "also-a-dd.mm-date" if (1 <= h <= 31 and 1 <= m <= 12) else None}),
    "HH:MM Uhr": (lambda h, m: "%02d:%02d Uhr" % (h, m), {}),
    "H:MMuhr": (lambda h, m: "%d:%02duhr" % (h, m), {}),
    "H:MMh": (lambda h, m: "%d:%02dh" % (h, m), {}),
    "H:MM h": (lambda h, m: "%d:%02d h" % (h, m), {}),
    "H.MM Uhr": (lambda h, m: "%d.%02d Uhr" % (h, m), {}),
    "H Uhr": (lambda h, m: "%d Uhr" % h if m == 0 else None, {}),
    "Huhr": (lambda h, m: "%duhr" % h if m == 0 else None, {}),
    "Hh": (lambda h, m: "%dh" % h if m == 0 else None, {}),
    "H h": (lambda h, m: "%d h" % h if m == 0 else None, {}),
    "H o'clock": (lambda h, m: "%d o'clock" % h if m == 0 else None, {"hour_only": True}),
    "H oclock": (lambda h, m: "%d oclock" % h if m == 0 else None, {"hour_only": True}),
    "h:MMam": (lambda h, m: "%d:%02d%s" % (_h12(h), m, _ap(h, "am", "pm")), {"ampm": True}),
    "h:MM am": (lambda h, m: "%d:%02d %s" % (_h12(h), m, _ap(h, "am", "pm")), {"ampm": True}),
    "h:MM a.m.": (lambda h, m: "%d:%02d %s" % (_h12(h), m, _ap(h, "a.m.", "p.m.")), {"ampm": True}),
    "h:MMAM": (lambda h, m: "%d:%02d%s" % (_h12(h), m, _ap(h, "AM", "PM")), {"ampm": True}),
    "h.MM am": (lambda h, m: "%d.%02d %s" % (_h12(h), m, _ap(h, "am", "pm")), {"ampm": True}),
    "hh:MM am": (lambda h, m: "%02d:%02d %s" % (_h12(h), m, _ap(h, "am", "pm")), {"ampm": True}),
    "ham": (lambda h, m: "%d%s" % (_h12(h), _ap(h, "am", "pm")) if m == 0 else None, {"ampm": True}),
    "h am": (lambda h, m: "%d %s" % (_h12(h), _ap(h, "am", "pm")) if m == 0 else None, {"ampm": True}),
    "h a.m.": (lambda h, m: "%d %s" % (_h12(h), _ap(h, "a.m.", "p.m.")) if m == 0 else None, {"ampm": True}),
    "h:MM a.m": (lambda h, m: "%d:%02d %s" % (_h12(h), m, _ap(h, "a.m", "p.m")), {"ampm": True}),
    "h:MMa.m.": (lambda h, m: "%d:%02d%s" % (_h12(h), m, _ap(h, "a.m.", "p.m.")), {"ampm": True}),
    "ha.m.": (lambda h, m: "%d%s" % (_h12(h), _ap(h, "a.m.", "p.m.")) if m == 0 else None, {"ampm": True}),
    # four digits: the documented military-time heuristic applies only to
    # minutes that are a multiple of 5, and a number that is also a year
    # (19xx, 200x-202x) has a competing reading
    "HHMM": (lambda h, m: "%02d%02d" % (h, m) if m % 5 == 0 else None,
             {"exclude": lambda h, m: "also-a-year" if _year_like(h, m) else None, "military": True}),
    "HHMM Uhr": (lambda h, m: "%02d%02d Uhr" % (h, m), {}),
    "HHMMh": (lambda h, m: "%02d%02dh" % (h, m), {}),
    "hhMMam": (lambda h, m: "%02d%02d%s" % (_h12(h), m, _ap(h, "am", "pm")) if m % 5 == 0 else None,
               {"ampm": True, "military": True}),
}

HOUR_EN = ["one", "two", "three", "four", "five", "six", "seven", "eight", "nine", "ten", "eleven", "twelve"]
HOUR_DE = ["eins", "zwei", "drei", "vier", "fünf", "sechs", "sieben", "acht", "neun", "zehn", "elf", "zwölf"]
NAMED_HOUR_SUFFIX = ["", " uhr", "uhr", " o'clock", " oclock", " h", "h"]
MIDNIGHT = ["midnight", "mitternacht"]

# spoken quarter / half: prefix -> (hour offset, minute)
SPOKEN = {
    "quarter to": (-1, 45), "a quarter to": (-1, 45), "quarter till": (-1, 45), "quarter before": (-1, 45),
    "quarter of": (-1, 45), "one quarter to": (-1, 45), "viertel vor": (-1, 45), "virtel vor": (-1, 45),
    "quarter past": (0, 15), "quarter after": (0, 15), "a quarter past": (0, 15), "viertel nach": (0, 15),
    "half past": (0, 30), "half after": (0, 30), "halfe past": (0, 30), "halb nach": (0, 30),
    "halb": (-1, 30), "half to": (-1, 30), "half before": (-1, 30), "half": (-1, 30), "halb vor": (-1, 30),
    "half till": (-1, 30), "half of": (-1, 30),
}
SPOKEN_HOUR_FORMS = {
    "d": lambda h: "%d" % h, "d:00": lambda h: "%d:00" % h, "d uhr": lambda h: "%d uhr" % h,
    "d o'clock": lambda h: "%d o'clock" % h,
}

# '<clock> in the <part of day>' (hours 1..11): unambiguous clock forms only --
# a bare digit followed by a part of day legitimately reads as a day of month
# ('3 in the afternoon' = the 3rd in the afternoon), and 'am morgen' reads as
# 'am <tomorrow>'
POD_PM = ["in the afternoon", "afternoon", "nachmittags", "am nachmittag", "in the evening", "evening", "abends",
          "am abend", "at night", "in the night", "nachts", "tonight", "night"]
POD_AM = ["in the morning", "morning", "morgens", "vormittags", "am vormittag", "in the forenoon", "früh"]
# modified parts of day next to a clock (+12 for the afternoon/evening/night family, unchanged for the morning family)
POD_PM_MOD = ["early afternoon", "late afternoon", "in the early afternoon", "early evening", "late evening", "in the late evening", "late night",
              "early night", "very late evening", "am frühen nachmittag", "später nachmittag", "früher nachmittag", "frühen abend", "spätem abend",
              "am späten abend", "very late", "sehr spät"]
POD_AM_MOD = ["early morning", "late morning", "in the early morning", "very early morning", "früher morgen", "very early", "sehr früh"]
POD_CLOCK = {
    "h:MM": (lambda h, m: "%d:%02d" % (h, m), {}),
    "hh:MM": (lambda h, m: "%02d:%02d" % (h, m), {}),
    "h uhr": (lambda h, m: "%d uhr" % h if m == 0 else None, {}),
    "h.MM uhr": (lambda h, m: "%d.%02d uhr" % (h, m), {}),
    "h o'clock": (lambda h, m: "%d o'clock" % h if m == 0 else None, {"hour_only": True, "no_am_pod": True}),
}

# ---------------------------------------------------------------------------
# partial dates (C04): day of month, day + month, parts of day
# ---------------------------------------------------------------------------
MONTH_EN = ["january", "february", "march", "april", "may", "june", "july", "august", "september", "october",
            "november", "december"]
MONTH_DE = ["januar", "februar", "märz", "april", "mai", "juni", "juli", "august", "september", "oktober",
            "november", "dezember"]
MONTH_AB = ["jan", "feb", "mar", "apr", "may", "jun", "jul", "aug", "sep", "oct", "nov", "dec"]
MONTH_AB_DE = ["jan", "feb", "mär", "apr", "mai", "jun", "jul", "aug", "sept", "okt", "nov", "dez"]
MONTH_AB_DOT = ["jan.", "feb.", "mar.", "apr.", "may", "jun.", "jul.", "aug.", "sept.", "oct.", "nov.", "dec."]
MONTH_AB_DE_DOT = ["jan.", "feb.", "mrz.", "apr.", "mai", "jun.", "jul.", "aug.", "sep.", "okt.", "nov.", "dez."]


def ord_en(n):
    return "%d%s" % (n, "th" if 11 <= n % 100 <= 13 else {1: "st", 2: "nd", 3: "rd"}.get(n % 10, "th"))


# excluded, with the competing reading: a bare number (also an hour), 'Nten' /
# 'Nsten' (N + the English hour 'ten')
DOM_FORMS = {
    "d.": lambda n: "%d." % n, "dd.": lambda n: "%02d." % n, "dth": ord_en, "the dth": lambda n: "the " + ord_en(n),
    "on the dth": lambda n: "on the " + ord_en(n), "am d.": lambda n: "am %d." % n, "den d.": lambda n: "den %d." % n,
    "d th": lambda n: "%d th" % n, "dter": lambda n: "%dter" % n,
}

# 'd/m' is kept only for d > 12: below that the library's mm/dd rule gives the
# same characters a second legitimate reading
DOY_FORMS = {
    "d.m.": lambda d, m: "%d.%d." % (d, m), "dd.mm.": lambda d, m: "%02d.%02d." % (d, m),
    "d.m": lambda d, m: "%d.%d" % (d, m), "dd.mm": lambda d, m: "%02d.%02d" % (d, m),
    "d/m": lambda d, m: "%d/%d" % (d, m) if d > 12 else None,
    "d. Monat": lambda d, m: "%d. %s" % (d, MONTH_DE[m - 1]), "d Month": lambda d, m: "%d %s" % (d, MONTH_EN[m - 1]),
    "dth of Month": lambda d, m: "%s of %s" % (ord_en(d), MONTH_EN[m - 1]),
    "dth Month": lambda d, m: "%s %s" % (ord_en(d), MONTH_EN[m - 1]),
    "Month dth": lambda d, m: "%s %s" % (MONTH_EN[m - 1], ord_en(d)), "Month d": lambda d, m: "%s %d" % (MONTH_EN[m - 1], d),
    "d. mon": lambda d, m: "%d. %s" % (d, MONTH_AB[m - 1]), "mon d": lambda d, m: "%s %d" % (MONTH_AB[m - 1], d),
    "d mon": lambda d, m: "%d %s" % (d, MONTH_AB[m - 1]),
    "the dth of Month": lambda d, m: "the %s of %s" % (ord_en(d), MONTH_EN[m - 1]),
    "am d. Monat": lambda d, m: "am %d. %s" % (d, MONTH_DE[m - 1]), "d.mon": lambda d, m: "%d.%s" % (d, MONTH_AB[m - 1]),
    "mon-d": lambda d, m: "%s-%d" % (MONTH_AB[m - 1], d), "mon/d": lambda d, m: "%s/%d" % (MONTH_AB[m - 1], d),
    "d/mon": lambda d, m: "%d/%s" % (d, MONTH_AB[m - 1]), "on Month d": lambda d, m: "on %s %d" % (MONTH_EN[m - 1], d),
    "am d.m.": lambda d, m: "am %d.%d." % (d, m),
}

# surface form -> key of the library's part-of-day table that it names
# (excluded: 'vormittag(s)' alone also reads 'vor mittag' = before noon;
# 'am morgen' = 'am <tomorrow>')
POD_FORMS = {
    # (rarer spellings the part-of-day pattern accepts)
    "erste": "first", "letzte": "last", "spätest möglich": "last", "spätest möglicher": "last", "earliest possible": "first", "first possible": "first",
    "frühst möglich": "first", "frühestens möglich": "first", "as early": "first", "erster möglicher": "first",
    "morgends": "morning", "morgend": "morning", "frühe": "morning", "abens": "evening", "so spät wie möglicher": "last",
    "morning": "morning", "morgens": "morning", "früh": "morning", "in der früh": "morning", "in der frühe": "morning",
    "early": "morning", "forenoon": "forenoon", "am vormittag": "forenoon", "afternoon": "afternoon",
    "nachmittag": "afternoon", "nachmittags": "afternoon", "noon": "noon", "mittag": "noon", "mittags": "noon",
    "evening": "evening", "tonight": "evening", "late": "evening", "abend": "evening", "abends": "evening",
    "spät": "evening", "night": "night", "nacht": "night", "nachts": "night", "very early": "earlymorning",
    "sehr früh": "earlymorning", "very late": "lateevening", "sehr spät": "lateevening", "first": "first",
    "earliest": "first", "as early as possible": "first", "frühestens": "first", "so früh wie möglich": "first",
    "erster": "first", "last": "last", "latest": "last", "as late as possible": "last", "letzter": "last",
    "so spät wie möglich": "last", "early morning": "earlymorning", "late morning": "latemorning",
    "early afternoon": "earlyafternoon", "late afternoon": "lateafternoon", "early evening": "earlyevening",
    "late evening": "lateevening", "very early morning": "veryearlymorning", "very late evening": "verylateevening",
    "früher morgen": "earlymorning", "später abend": "lateevening", "früher nachmittag": "earlyafternoon",
    "später nachmittag": "lateafternoon", "sehr früher morgen": "veryearlymorning", "late night": "latenight",
    "early night": "earlynight", "frühen abend": "earlyevening", "spätem abend": "lateevening",
    "in the morning": "morning", "in the afternoon": "afternoon", "in the evening": "evening", "at night": "night",
    "am abend": "evening", "am nachmittag": "afternoon", "this morning": "morning", "this evening": "evening",
    "this afternoon": "afternoon", "early early morning": "earlyearlymorning",
}

# ---------------------------------------------------------------------------
# absolute dates (C05)
# ---------------------------------------------------------------------------
# flags: 'named' = the year is a stand-alone 4-digit token next to a month name
# (the property excludes years that read as hh:mm with mm a multiple of 5
# there); 'yy' = two-digit year
DATE_NOTATIONS = {
    "dd.mm.yyyy": (lambda y, m, d: "%02d.%02d.%04d" % (d, m, y), {}),
    "d.m.yyyy": (lambda y, m, d: "%d.%d.%04d" % (d, m, y), {}),
    "dd/mm/yyyy": (lambda y, m, d: "%02d/%02d/%04d" % (d, m, y), {}),
    "d/m/yyyy": (lambda y, m, d: "%d/%d/%04d" % (d, m, y), {}),
    "dd-mm-yyyy": (lambda y, m, d: "%02d-%02d-%04d" % (d, m, y), {}),
    "d-m-yyyy": (lambda y, m, d: "%d-%d-%04d" % (d, m, y), {}),
    "dd.mm.yy": (lambda y, m, d: "%02d.%02d.%02d" % (d, m, y % 100), {"yy": True}),
    "d.m.yy": (lambda y, m, d: "%d.%d.%02d" % (d, m, y % 100), {"yy": True}),
    "d/Mon/yyyy": (lambda y, m, d: "%d/%s/%04d" % (d, MONTH_AB[m - 1], y), {}),
    "d-Mon-yyyy": (lambda y, m, d: "%d-%s-%04d" % (d, MONTH_AB[m - 1], y), {}),
    "d.Mon.yyyy": (lambda y, m, d: "%d.%s.%04d" % (d, MONTH_AB[m - 1], y), {}),
    "d Month yyyy": (lambda y, m, d: "%d %s %04d" % (d, MONTH_EN[m - 1], y), {"named": True}),
    "d. Monat yyyy": (lambda y, m, d: "%d. %s %04d" % (d, MONTH_DE[m - 1], y), {"named": True}),
    "Month d yyyy": (lambda y, m, d: "%s %d %04d" % (MONTH_EN[m - 1], d, y), {"named": True}),
    "Month d, yyyy": (lambda y, m, d: "%s %d, %04d" % (MONTH_EN[m - 1], d, y), {"named": True}),
    "dth of Month yyyy": (lambda y, m, d: "%s of %s %04d" % (ord_en(d), MONTH_EN[m - 1], y), {"named": True}),
    "dth Month yyyy": (lambda y, m, d: "%s %s %04d" % (ord_en(d), MONTH_EN[m - 1], y), {"named": True}),
    "Month dth yyyy": (lambda y, m, d: "%s %s %04d" % (MONTH_EN[m - 1], ord_en(d), y), {"named": True}),
    "Month dth, yyyy": (lambda y, m, d: "%s %s, %04d" % (MONTH_EN[m - 1], ord_en(d), y), {"named": True}),
    "d mon yyyy": (lambda y, m, d: "%d %s %04d" % (d, MONTH_AB[m - 1], y), {"named": True}),
    "d. mon yyyy": (lambda y, m, d: "%d. %s %04d" % (d, MONTH_AB_DE[m - 1], y), {"named": True}),
    "mon d yyyy": (lambda y, m, d: "%s %d %04d" % (MONTH_AB[m - 1], d, y), {"named": True}),
    "mon d, yyyy": (lambda y, m, d: "%s %d, %04d" % (MONTH_AB[m - 1], d, y), {"named": True}),
    # dotted and alternative abbreviations the month patterns accept ('sept.', 'mrz.', 'okt.')
    "d mon. yyyy": (lambda y, m, d: "%d %s %04d" % (d, MONTH_AB_DOT[m - 1], y), {"named": True}),
    "d. mon. yyyy": (lambda y, m, d: "%d. %s %04d" % (d, MONTH_AB_DE_DOT[m - 1], y), {"named": True}),
    "the dth of Month yyyy": (lambda y, m, d: "the %s of %s %04d" % (ord_en(d), MONTH_EN[m - 1], y), {"named": True}),
    "am d. Monat yyyy": (lambda y, m, d: "am %d. %s %04d" % (d, MONTH_DE[m - 1], y), {"named": True}),
}
# not in the table, with the competing reading: 'dd/mm/yy' ('/' is also the
# range joiner: 06/01/28 = 6 Jan to the 28th)


def reads_as_military(y):
    h, mi = divmod(y, 100)
    return h < 24 and mi < 60 and mi % 5 == 0


# clock notations that are unambiguous next to a date (a subset of CLOCK)
DATE_CLOCKS = ["HH:MM", "H:MM", "HH:MM Uhr", "H:MMh", "h:MMam", "h:MM am", "h:MM a.m.", "H Uhr", "ham", "h am", "HhMM"]
DATE_CLOCK_JOIN = [" ", " at ", " um "]

# ---------------------------------------------------------------------------
# ranges (C07)
# ---------------------------------------------------------------------------
RANGE_JOIN = {
    "-": "{a} - {b}", "-tight": "{a}-{b}", "to": "{a} to {b}", "bis": "{a} bis {b}", "until": "{a} until {b}",
    "til": "{a} til {b}", "between-and": "between {a} and {b}", "von-bis": "von {a} bis {b}",
    "from-to": "from {a} to {b}", "zwischen-und": "zwischen {a} und {b}", "from-until": "from {a} until {b}",
    "bis zum": "{a} bis zum {b}", "to the": "{a} to the {b}", "und": "{a} und {b}", "and": "{a} and {b}", "auf": "{a} auf {b}", "auf den": "{a} auf den {b}",
    "vom-bis": "vom {a} bis {b}", "vom-bis zum": "vom {a} bis zum {b}", "slash": "{a} / {b}",
}
RANGE_HOUR_FORMS = {
    "H:MM": lambda h, m: "%d:%02d" % (h, m), "HH:MM": lambda h, m: "%02d:%02d" % (h, m),
    "H Uhr": lambda h, m: "%d Uhr" % h if m == 0 else "%d:%02d Uhr" % (h, m),
    "ham": lambda h, m: ("%d%s" if m == 0 else "%d:{:02d}%s".format(m)) % (_h12(h), _ap(h, "am", "pm")),
    # an end without minutes at all (the resolution may leave the minute unspecified; anchoring must still give :00)
    "H o'clock": lambda h, m: "%d o'clock" % h if m == 0 else "%d:%02d" % (h, m),
}
# contexts: name -> (prefix, how the day is determined).  'morgen' is not used
# as a context: next to a clock range the library's part-of-day pattern gives
# it the competing reading 'morning'.  There is no rule for '<range> <date>'.
RANGE_CTX = ["none", "date", "am d.m.", "tomorrow", "on friday", "freitag"]

BEFORE_WORDS = ["before", "vor", "bis", "spätestens", "bis spätestens", "spätestens bis", "bis spätestens bis"]
AFTER_WORDS = ["after", "nach", "ab", "from", "ab frühestens", "frühestens ab", "from earliest", "earliest after", "from earliest after", "ab frühstens ab"]
NOT_BEFORE_WORDS = ["not before", "nicht vor"]
NOT_AFTER_WORDS = ["not after", "nicht nach"]
# excluded with the competing reading: 'latest' / 'earliest' / 'frühestens'
# also name the parts of day 'last' / 'first'; English 'until' is only a joiner

# ---------------------------------------------------------------------------
# durations (C08)
# ---------------------------------------------------------------------------
UNIT_WORDS = {
    "nights": ["nacht", "nächte", "nachte", "night", "nights", "übernachtung", "ubernachtung"],
    "days": ["tag", "tage", "day", "days"],
    "minutes": ["m", "minute", "minuten", "minutes"],
    "hours": ["stunde", "stunden", "hour", "hours"],
    "weeks": ["week", "weeks", "woche", "wochen"],
    "months": ["monat", "monate", "month", "months"],
}
# excluded with the competing reading: the unit letter 'h' after a number is the
# clock suffix ('5 h' = 5 o'clock); a digit followed by singular 'nacht'/'night'
# reads as '<day of month> <part of day>' ('3 night' = the 3rd, at night)
DIGIT_UNIT_EXCLUDED = {"nacht", "night"}
NUM_EN = ["one", "two", "three", "four", "five", "six", "seven", "eight", "nine", "ten", "eleven", "twelve", "thirteen",
          "fourteen", "fifteen", "sixteen", "seventeen", "eighteen", "nineteen", "twenty", "twentyone", "twentytwo",
          "twentythree", "twentyfour", "twentyfive", "twentysix", "twentyseven", "twentyeight", "twentynine", "thirty",
          "thirtyone"]
NUM_DE = ["ein", "zwei", "drei", "vier", "fünf", "sechs", "sieben", "acht", "neun", "zehn", "elf", "zwölf", "dreizehn",
          "vierzehn", "fünfzehn", "sechzehn", "siebzehn", "achtzehn", "neunzehn", "zwanzig", "einundzwanzig",
          "zweiundzwanzig", "dreiundzwanzig", "vierundzwanzig", "fünfundzwanzig", "sechsundzwanzig", "siebenundzwanzig",
          "achtundzwanzig", "neunundzwanzig", "dreißig", "einunddreißig"]
NUM_ONE_VARIANTS = ["a", "an", "one", "ein", "eine", "eins"]
# spelling variants the number patterns deliberately accept (optional letters): 'und' without its d, 'sechszehn', 'ss' for 'ß'
NUM_DE_VARIANTS = {16: ["sechszehn"], 30: ["dreissig"], 31: ["einunddreissig", "einundreißig", "einundreissig"]}
for _n in range(21, 30):
    NUM_DE_VARIANTS[_n] = [NUM_DE[_n - 1].replace("und", "un")]
HALF_FORMS = {
    "half an hour": (30, "minutes"), "half a day": (12, "hours"), "halbe stunde": (30, "minutes"),
    "1/2 hour": (30, "minutes"), "half hour": (30, "minutes"), "half day": (12, "hours"), "1/2 day": (12, "hours"),
    "halbe stunden": (30, "minutes"), "half a hour": (30, "minutes"), "halb tag": (12, "hours"),
    "halbe tage": (12, "hours"), "1/2 stunde": (30, "minutes"),
}
# ... and every other spelling the pattern accepts: (half|halb|halfe|halbe|1/2) [a|an] <hour or day word>
for _h in ("half", "halb", "halfe", "halbe", "1/2"):
    for _a in ("", " a", " an"):
        for _w in ("hour", "hours", "stunde", "stunden"):
            HALF_FORMS.setdefault("%s%s %s" % (_h, _a, _w), (30, "minutes"))
        for _w in ("day", "days", "tag", "tage"):
            HALF_FORMS.setdefault("%s%s %s" % (_h, _a, _w), (12, "hours"))

# ---------------------------------------------------------------------------
# day expressions for composition (C20, C09, C10)
# ---------------------------------------------------------------------------
# name -> (text builder(params) , class); the expected day is what the day
# expression alone resolves to (metamorphic), so no date function is needed here
DAY_FORMS = {
    "abs/dd.mm.yyyy": lambda p: "%02d.%02d.%04d" % (p["d"], p["m"], p["y"]),
    "abs/d.m.yyyy": lambda p: "%d.%d.%04d" % (p["d"], p["m"], p["y"]),
    "abs/dd/mm/yyyy": lambda p: "%02d/%02d/%04d" % (p["d"], p["m"], p["y"]),
    "abs/d Month yyyy": lambda p: "%d %s %04d" % (p["d"], MONTH_EN[p["m"] - 1], p["y"]),
    "abs/d. Monat yyyy": lambda p: "%d. %s %04d" % (p["d"], MONTH_DE[p["m"] - 1], p["y"]),
    "abs/Month d yyyy": lambda p: "%s %d %04d" % (MONTH_EN[p["m"] - 1], p["d"], p["y"]),
    "rel/today": lambda p: "today", "rel/heute": lambda p: "heute", "rel/tomorrow": lambda p: "tomorrow",
    "rel/morgen": lambda p: "morgen", "rel/übermorgen": lambda p: "übermorgen", "rel/yesterday": lambda p: "yesterday",
    "rel/gestern": lambda p: "gestern",
    "dow/X": lambda p: DOW_FULL_EN[p["dow"]], "dow/on X": lambda p: "on " + DOW_FULL_EN[p["dow"]],
    "dow/this X": lambda p: "this " + DOW_FULL_EN[p["dow"]], "dow/next X": lambda p: "next " + DOW_FULL_EN[p["dow"]],
    "dow/X de": lambda p: DOW_FULL_DE[p["dow"]], "dow/am X": lambda p: "am " + DOW_FULL_DE[p["dow"]],
    "dow/nächsten X": lambda p: "nächsten " + DOW_FULL_DE[p["dow"]],
    "dom/the dth": lambda p: "the " + ord_en(p["d"]), "dom/dth": lambda p: ord_en(p["d"]),
    "dom/am d.": lambda p: "am %d." % p["d"], "dom/d.": lambda p: "%d." % p["d"],
    "doy/d.m.": lambda p: "%d.%d." % (p["d"], p["m"]), "doy/dth of Month": lambda p: "%s of %s" % (ord_en(p["d"]), MONTH_EN[p["m"] - 1]),
    "doy/Month dth": lambda p: "%s %s" % (MONTH_EN[p["m"] - 1], ord_en(p["d"])),
    "doy/d. Monat": lambda p: "%d. %s" % (p["d"], MONTH_DE[p["m"] - 1]),
    "doy/d Month": lambda p: "%d %s" % (p["d"], MONTH_EN[p["m"] - 1]),
}
# every weekday spelling of the specification (abbreviations, dotted forms, supported typos): used by C20 with a few clocks only
DAY_FORMS_SPELLED = {"dow/spelled": lambda p: p["w"], "dow/am spelled": lambda p: "am " + p["w"], "dow/on spelled": lambda p: "on " + p["w"]}
COMPOSE_CONN = {"_": " ", "at": " at ", "um": " um "}
# the other words the 'absorb' pattern accepts in front of a clock time (used with a few day forms and clocks only)
COMPOSE_CONN_MORE = {"gegen": " gegen ", "ca.": " ca. ", "about": " about ", "around": " around ", "approx.": " approx. ", "ca": " ca "}

# ---------------------------------------------------------------------------
# a mixed pool of time expressions drawn from every table above (C01, C02,
# C09, C10, C11, C14): returns (class, text)
# ---------------------------------------------------------------------------


def expression(r):
    """one random expression of the specification grammar"""
    kind = r.choice(["rel", "dow", "clock", "date", "dom", "doy", "pod", "dur", "range", "dayclock", "halfopen", "for",
                     "spoken", "podclock", "date", "clock", "dayclock"])
    y, m, d = r.randrange(1990, 2030), r.randrange(1, 13), r.randrange(1, 29)
    h, mi = r.randrange(24), r.choice([0, 0, 15, 30, 45, r.randrange(60)])

    def clock():
        for _ in range(30):
            cn = r.choice(list(CLOCK))
            fn, fl = CLOCK[cn]
            t = fn(h, mi)
            if t is not None and not (fl.get("exclude") and fl["exclude"](h, mi)):
                return t
        return "%02d:%02d" % (h, mi)

    if kind == "rel":
        c = r.choice(list(REL))
        return "rel/" + c, r.choice(REL[c])
    if kind == "dow":
        i = r.randrange(7)
        w = r.choice(DOW[i])
        f = r.choice(["this", "next", "post"])
        if f == "this":
            return "dow/this", r.choice(DOW_THIS_PRE) + w
        if f == "next":
            return "dow/next", r.choice(DOW_NEXT_PRE) + w
        return "dow/nextweek", w + r.choice(DOW_NEXT_POST)
    if kind == "clock":
        return "clock", clock()
    if kind == "date":
        nn = r.choice(list(DATE_NOTATIONS))
        return "date/" + nn, DATE_NOTATIONS[nn][0](y, m, d)
    if kind == "dom":
        nn = r.choice(list(DOM_FORMS))
        return "dom/" + nn, DOM_FORMS[nn](r.randrange(1, 32))
    if kind == "doy":
        for _ in range(10):
            nn = r.choice(list(DOY_FORMS))
            t = DOY_FORMS[nn](d, m)
            if t:
                return "doy/" + nn, t
        return "doy/d.m.", "%d.%d." % (d, m)
    if kind == "pod":
        return "pod", r.choice(list(POD_FORMS))
    if kind == "dur":
        u = r.choice(list(UNIT_WORDS))
        n = r.randrange(0, 121)
        if r.random() < 0.4 and 1 <= n <= 31:
            return "dur/word", "%s %s" % (r.choice([NUM_EN, NUM_DE])[n - 1], r.choice(UNIT_WORDS[u]))
        return "dur/digit", "%d %s" % (n, r.choice(UNIT_WORDS[u]))
    if kind == "range":
        j = r.choice(list(RANGE_JOIN))
        if r.random() < 0.5:
            hf = RANGE_HOUR_FORMS[r.choice(list(RANGE_HOUR_FORMS))]
            return "range/clock", RANGE_JOIN[j].format(a=hf(h, 0), b=hf(r.randrange(24), 0))
        d2 = r.randrange(d, 29)
        return "range/date", RANGE_JOIN[j].format(a="%02d.%02d.%04d" % (d, m, y), b="%02d.%02d.%04d" % (d2, m, y))
    if kind == "dayclock":
        dn = r.choice(list(DAY_FORMS))
        day = DAY_FORMS[dn]({"y": y, "m": m, "d": d, "dow": r.randrange(7)})
        conn = r.choice(list(COMPOSE_CONN.values()))
        if r.random() < 0.5:
            return "dayclock/day-first", day + conn + clock()
        return "dayclock/clock-first", clock() + " " + day
    if kind == "halfopen":
        w = r.choice(BEFORE_WORDS + AFTER_WORDS + NOT_BEFORE_WORDS + NOT_AFTER_WORDS)
        return "halfopen", "%s %s" % (w, r.choice(["%02d.%02d.%04d" % (d, m, y), "%d:%02d" % (h, mi)]))
    if kind == "for":
        u = r.choice(list(UNIT_WORDS))
        return "for", "%02d.%02d.%04d %s %d %s" % (d, m, y, r.choice(["for", "für"]), r.randrange(1, 40), r.choice(UNIT_WORDS[u]))
    if kind == "spoken":
        pre = r.choice(list(SPOKEN))
        hf = SPOKEN_HOUR_FORMS[r.choice(list(SPOKEN_HOUR_FORMS))]
        return "spoken", "%s %s" % (pre, hf(h))
    if kind == "podclock" and r.random() < 0.35:
        # a part of day in front of a clock range (every hour, incl. 12 and 0)
        a, b = r.randrange(0, 24), r.randrange(0, 24)
        hf = RANGE_HOUR_FORMS[r.choice(["H:MM", "H Uhr", "ham"])]
        return "podrange", "%s %s" % (r.choice(POD_PM + POD_AM + POD_PM_MOD), RANGE_JOIN[r.choice(["-", "to", "bis", "von-bis", "from-to"])].format(a=hf(a, 0), b=hf(b, 0)))
    hh = r.randrange(1, 12) if r.random() < 0.6 else r.randrange(0, 24)
    return "podclock", "%d:%02d %s" % (hh, mi, r.choice(POD_PM + POD_AM + POD_PM_MOD + POD_AM_MOD))
