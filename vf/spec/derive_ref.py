"""Independent exhaustive derivation engine (DESIGN C15).

all overlapped matches of all registered patterns -> all maximal gap-free
sequences -> maximal coverage -> closure under all registered rules at all
windows, calling the real production bodies on copies of their arguments.
"""
import copy
import re

from . import values as V


class TooBig(Exception):
    pass


def strip_labels(norm):
    """what the library searches in: the normalised text without #labels"""
    return re.sub(r"\s+", " ", re.sub("#[a-zA-Z0-9_-]+", "", norm)).strip()


def all_matches(L, txt):
    out = {}
    for rid, rr in L.rule._regex.items():
        for m in rr.finditer(txt, overlapped=True):
            rm = L.RegexMatch(rid, m)
            out[(rm.mstart, rm.mend, rid)] = rm
    return [out[k] for k in sorted(out)]


def sequences(txt, ms, cap=20000):
    """all source-to-sink paths of the adjacency DAG (j follows i iff it starts
    at or after i's end with only blanks in between)"""
    n = len(ms)
    succ = [[] for _ in range(n)]
    has_pred = [False] * n
    for i in range(n):
        for j in range(n):
            if i != j and ms[j].mstart >= ms[i].mend and (ms[j].mstart, ms[j].mend, ms[j].id) > (ms[i].mstart, ms[i].mend, ms[i].id) \
                    and txt[ms[i].mend:ms[j].mstart].strip() == "":
                succ[i].append(j)
                has_pred[j] = True
    res = []
    stack = [(i,) for i in range(n) if not has_pred[i]]
    while stack:
        p = stack.pop()
        nx = succ[p[-1]]
        if not nx:
            res.append(tuple(ms[i] for i in p))
            if len(res) > cap:
                raise TooBig("more than %d sequences" % cap)
        else:
            for j in nx:
                stack.append(p + (j,))
    return res


def coverage(seq):
    return seq[-1].mend - seq[0].mstart


def state_key(state):
    return tuple(V.full(a) for a in state)


def _copy_arg(a):
    if type(a).__name__ == "RegexMatch":
        return copy.copy(a)
    return copy.deepcopy(a)


def windows(state, pats):
    """start/end index pairs at which the rule patterns match consecutive elements"""
    k = len(pats)
    for i in range(0, len(state) - k + 1):
        if all(bool(pats[j](state[i + j])) for j in range(k)):
            yield i, i + k


def successors(L, ts, state, only_rule=None):
    for name, (fn, pats) in L.registry.items():
        if only_rule is not None and name != only_rule:
            continue
        if not pats:
            continue
        for i, j in windows(state, pats):
            args = [_copy_arg(a) for a in state[i:j]]
            target = getattr(fn, "__wrapped_rule__", fn)
            res = target(ts, *args)
            if res is not None:
                yield name, state[:i] + (res,) + state[j:]


class Closure:
    def __init__(self, L, ts, norm_text, rml=1.0, cap=30000):
        self.L, self.ts = L, ts
        self.txt = strip_labels(norm_text)
        self.matches = all_matches(L, self.txt)
        self.seqs = sequences(self.txt, self.matches) if self.matches else []
        self.maxcov = max((coverage(s) for s in self.seqs), default=0)
        self.initial = [s for s in self.seqs if coverage(s) >= self.maxcov * rml]
        self.states = {}
        self.irreducible = []
        self.values = set()       # value (span excluded) of every non-match element of every reachable state
        self.irr_values = set()
        todo = []
        for s in self.initial:
            k = state_key(s)
            if k not in self.states:
                self.states[k] = s
                todo.append(s)
        while todo:
            st = todo.pop()
            any_succ = False
            for name, ns in successors(L, ts, st):
                any_succ = True
                k = state_key(ns)
                if k not in self.states:
                    self.states[k] = ns
                    todo.append(ns)
                    if len(self.states) > cap:
                        raise TooBig("more than %d states" % cap)
            for a in st:
                if type(a).__name__ != "RegexMatch":
                    self.values.add(V.val(a))
            if not any_succ:
                self.irreducible.append(st)
                for a in st:
                    if type(a).__name__ != "RegexMatch":
                        self.irr_values.add(V.val(a))

    def replays(self, production, value):
        """is `production` (pattern ids of an initial sequence, then rule names in
        order) a real derivation of an element with that value?"""
        ids = [p for p in production if isinstance(p, int)]
        names = [p for p in production if not isinstance(p, int)]
        cur = {}
        for s in self.seqs:
            if [m.id for m in s] == ids:
                cur[state_key(s)] = s
        for nm in names:
            nxt = {}
            for st in cur.values():
                for _, ns in successors(self.L, self.ts, st, only_rule=nm):
                    nxt[state_key(ns)] = ns
            cur = nxt
            if not cur:
                return False
            if len(cur) > 5000:
                raise TooBig("replay fan-out")
        return any(V.val(a) == value for st in cur.values() for a in st if type(a).__name__ != "RegexMatch")
