"""Coverage-guided input corpus, with the rule monitors supplying the feedback.

    python -m vf.tools.covsoup --minutes 20 [--seed 1] [--extend]     (writes vf/gen/cov_corpus.json)

A random token soup reaches a rule combination only by luck (the defect behind fix 19e166b needed part of day + day of
month + clock range in one text and was first seen by the thorough tier under one seed).  This tool keeps the luck: it
runs texts through the real parser under the monitors, records for every text the set of *rule-application signatures*
it produced -- ``rule<producer of each argument>`` and ``rule(shape of each argument)->shape of the result`` (which fields
of a Time / Interval / Duration are present), plus ``latent(shape)->shape`` -- and keeps a text when it shows a signature
no kept text has shown.  Kept texts are mutated (token inserted, replaced, dropped, swapped, two texts spliced) in the next
round, as a coverage-guided fuzzer does.  At the end a greedy set cover picks a small set of texts that together show every
signature seen.  The corpus is an INPUT LIST for the stream checks (C01, C02, C14 via props/streams.py): every verdict is
still taken on the current tree by the monitors of those checks; nothing recorded here is believed.
"""
import argparse
import json
import os
import random
import subprocess
import sys
import time

from .. import env

CORPUS = os.path.join(env.VERIF, "vf", "gen", "cov_corpus.json")
TSS = ["2021-03-10T12:43:30", "2020-02-29T23:59:59", "2019-12-31T08:00:00", "2024-02-28T23:10:00", "2022-04-30T18:05:00", "2023-01-31T00:00:00"]


def _worker(path):
    """evaluate the texts of one job file; prints {"feats": [[...], ...]}"""
    from datetime import datetime
    env.setup_path()
    from .. import attach
    L = attach.lib()
    mon = attach.Monitors(L)
    mon.track_feat = True
    mon.step_budget, mon.rule_budget = 4000, 30000
    with open(path) as fd:
        job = json.load(fd)
    out = []
    for t, ts in job["texts"]:
        mon.begin()
        try:
            for _ in L.ctparse_gen(t, ts=datetime.fromisoformat(ts), timeout=0, max_stack_depth=10, latent_time=True):
                pass
            st = "ok"
        except attach.StepBudget:
            st = "budget"
        except Exception as e:  # noqa  (C01 decides what a raise means; here it is just a very interesting text)
            st = "raise"
            mon.feats.add("RAISES:%s" % type(e).__name__)
        out.append(sorted(mon.feats) if st != "budget" else None)
    json.dump({"feats": out}, sys.stdout)


def _tokens():
    from ..gen import texts as T
    from ..spec import grammar as G
    toks = list(T.SOUP_TOKENS) + list(T.INERT[:4])
    for name in ("POD_PM", "POD_AM", "POD_PM_MOD", "POD_AM_MOD", "MIDNIGHT", "HOUR_EN", "HOUR_DE"):
        toks += [x for x in getattr(G, name, []) if isinstance(x, str)]
    for d in ("DOW", "REL"):
        v = getattr(G, d, None)
        if isinstance(v, dict):
            for forms in v.values():
                if isinstance(forms, (list, tuple)):
                    toks += [f for f in forms if isinstance(f, str)]
    toks += ["last", "first", "very", "late", "early", "früh", "spät", "evening", "abends", "nachmittags", "tonight", "heute abend", "mittag", "noon",
             "january", "feb", "märz", "dezember", "oct.", "2020", "2024", "'19", "1st", "2nd", "31st", "der", "den", "dem", "of", "in", "im",
             "for 3 days", "für 2 nächte", "eine woche", "two weeks", "1 monat", "half a day", "20 minutes", "3h", "zwei", "three", "dreißig",
             "not after", "nicht vor", "till", "through", "und", "/", ".", ":", "h", "uhr", "o'clock", "am", "pm", "a.m.", "p.m."]
    return sorted(set(t for t in toks if t))


def _fresh(r, toks, corpus_texts):
    from ..gen import texts as T
    from ..spec import grammar as G
    x = r.random()
    if x < 0.45:
        n = r.randrange(1, 7)
        return " ".join(r.choice(toks) if r.random() < 0.8 else T._num(r, r.randrange(0, 2101)) for _ in range(n))
    if x < 0.6:
        return T.soup(r)
    if x < 0.8:
        return " ".join(G.expression(r)[1] for _ in range(r.choice((1, 2, 2, 3))))
    return T.mutate(r, r.choice(corpus_texts))


def _mutant(r, kept, toks):
    from ..gen import texts as T
    t = r.choice(kept)
    k = r.randrange(6)
    tt = t.split(" ")
    if k == 0:
        tt.insert(r.randrange(len(tt) + 1), r.choice(toks))
    elif k == 1:
        tt[r.randrange(len(tt))] = r.choice(toks)
    elif k == 2 and len(tt) > 1:
        del tt[r.randrange(len(tt))]
    elif k == 3 and len(tt) > 1:
        i, j = r.randrange(len(tt)), r.randrange(len(tt))
        tt[i], tt[j] = tt[j], tt[i]
    elif k == 4:
        o = r.choice(kept).split(" ")
        a, b = r.randrange(len(tt) + 1), r.randrange(len(o) + 1)
        tt = tt[:a] + o[b:] if r.random() < 0.5 else o[:b] + tt[a:]
    else:
        return T.mutate(r, t)
    return " ".join(x for x in tt if x)[:120]


def evaluate(pairs, workdir, procs=16):
    os.makedirs(workdir, exist_ok=True)
    shards = [pairs[i::procs] for i in range(procs)]
    ps = []
    for i, sh in enumerate(shards):
        p = os.path.join(workdir, "cov%02d.json" % i)
        with open(p, "w") as fd:
            json.dump({"texts": sh}, fd)
        ps.append((sh, p, subprocess.Popen([env.PY, "-m", "vf.tools.covsoup", "--worker", p], cwd=env.VERIF, env=env.child_env(),
                                           stdout=subprocess.PIPE, stderr=subprocess.DEVNULL, text=True)))
    res = []
    for sh, p, pr in ps:
        try:
            out, _ = pr.communicate(timeout=900)
            feats = json.loads(out)["feats"]
        except Exception:  # noqa  a shard that died teaches nothing; the texts are simply not kept
            pr.kill()
            feats = [None] * len(sh)
        os.unlink(p)
        res += list(zip(sh, feats))
    return res


def main():
    ap = argparse.ArgumentParser()
    ap.add_argument("--worker")
    ap.add_argument("--minutes", type=float, default=10)
    ap.add_argument("--seed", type=int, default=1)
    ap.add_argument("--batch", type=int, default=6400)
    ap.add_argument("--extend", action="store_true", help="start from the existing corpus")
    ap.add_argument("--out", default=CORPUS)
    a = ap.parse_args()
    if a.worker:
        return _worker(a.worker)
    env.ensure_deps()
    env.setup_path()
    from ..attach import lib
    lib()
    from ..gen import texts as T
    r = random.Random("covsoup/%d" % a.seed)
    toks = _tokens()
    corp = T.corpus_texts()
    workdir = os.path.join("/tmp", "vf-covsoup-%d" % os.getpid())
    seen, kept = set(), {}      # kept: (text, ts) -> feats
    if a.extend and os.path.exists(a.out):
        old = json.load(open(a.out))["entries"]
        for (pair, feats) in evaluate([(e["t"], e["ts"]) for e in old], workdir):
            if feats:
                kept[tuple(pair)] = set(feats)
                seen |= set(feats)
        print("re-evaluated %d old entries: %d signatures" % (len(old), len(seen)), flush=True)
    t0 = time.time()
    rnd = 0
    while time.time() - t0 < a.minutes * 60:
        rnd += 1
        ktexts = [k[0] for k in kept]
        batch = []
        for _ in range(a.batch):
            t = _mutant(r, ktexts, toks) if (ktexts and r.random() < 0.6) else _fresh(r, toks, corp)
            if t.strip():
                batch.append((t, r.choice(TSS)))
        new = 0
        for pair, feats in evaluate(batch, workdir):
            if not feats:
                continue
            fs = set(feats)
            if fs - seen:
                seen |= fs
                kept[tuple(pair)] = fs
                new += 1
        print("round %d: +%d kept (%d), %d signatures, %.0fs" % (rnd, new, len(kept), len(seen), time.time() - t0), flush=True)
    # greedy set cover, short texts first among equals
    todo = set(seen)
    items = sorted(kept.items(), key=lambda kv: (len(kv[0][0]), kv[0]))
    chosen = []
    while todo:
        best = max(items, key=lambda kv: len(kv[1] & todo))
        gain = best[1] & todo
        if not gain:
            break
        chosen.append(best[0])
        todo -= gain
    chosen.sort()
    with open(a.out, "w") as fd:
        json.dump({"_about": "coverage-guided input corpus built by vf/tools/covsoup.py (an input list, not evidence): each text showed a rule-application "
                             "signature no other kept text shows", "signatures": len(seen), "entries": [{"t": t, "ts": ts} for t, ts in chosen]},
                  fd, indent=0, ensure_ascii=False)
    try:
        os.rmdir(workdir)
    except OSError:
        pass
    print("wrote %s: %d entries covering %d signatures" % (a.out, len(chosen), len(seen)))


if __name__ == "__main__":
    main()
