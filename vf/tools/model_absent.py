"""Fault 'shipped model file absent': fresh interpreter in which the model path
is reported missing before ctparse is imported (or a scratch package without
models/ is on the path); asserts the documented fallback and re-runs a slice of
the C01 workload.  Prints one JSON line."""
import json
import os
import sys


def main():
    seed, n = int(sys.argv[1]), int(sys.argv[2])
    variant = os.environ.get("VF_MODEL_ABSENT")
    root = os.environ.get("VF_SCRATCH_ROOT") or None
    if variant == "exists-patched":
        real = os.path.exists

        def exists(p):
            if str(p).endswith("model.pbz"):
                return False
            return real(p)

        os.path.exists = exists
    import warnings
    warnings.filterwarnings("ignore")
    import logging
    logging.disable(logging.CRITICAL)
    if root:
        sys.path.insert(0, root)
    import ctparse
    if root and not os.path.abspath(ctparse.__file__).startswith(root):
        print(json.dumps({"scorer": "?", "problems": [["harness", "scratch package not imported: %s" % ctparse.__file__]], "calls": 0, "resolved": 0}))
        return
    m = sys.modules["ctparse.ctparse"]
    sys.path.append(os.path.dirname(os.path.dirname(os.path.dirname(os.path.abspath(__file__)))))
    from vf.gen import texts as T
    from vf.props import common as C
    r = C.rng(seed, "C01-fault")
    pools = {"corpus": T.corpus_texts()}
    problems = []
    calls = resolved = 0
    for i in range(n):
        g, t = T.text_case(r, pools)
        ts = C.parse_ts(T.ref_time(r))
        try:
            res = m.ctparse(t, ts=ts, timeout=0, max_stack_depth=r.choice([10, 1, 0]), latent_time=r.random() < 0.5)
            calls += 1
            if not isinstance(res, m.CTParse):
                problems.append(["shape", "%r -> %r" % (t, type(res).__name__)])
                continue
            str(res), repr(res)
            if res.resolution is not None:
                resolved += 1
            if not isinstance(res.subject, str) or not isinstance(res.labels, list):
                problems.append(["shape", "%r subject/labels" % t])
        except Exception as e:  # noqa
            problems.append(["raises", "%r: %s: %s" % (t, type(e).__name__, e)])
    print(json.dumps({"scorer": type(m._DEFAULT_SCORER).__name__, "problems": problems[:20], "calls": calls, "resolved": resolved}))


if __name__ == "__main__":
    main()
