"""Evaluate pool entries of the C12 reference table in a fresh interpreter and
print {index: result tuple} as JSON (no monitors attached: the plain library)."""
import json
import sys

from .. import env


def result_tuple(L, entry):
    from ..spec import values as V
    from ..props import common as C
    from ..gen import texts as T
    o = dict(entry["o"])
    o.pop("debug", None)
    o["scorer"] = T.make_scorer(L, o["scorer"], 0)
    r = L.m.ctparse(entry["t"], ts=C.parse_ts(entry["ts"]), timeout=0, **o)
    if r is None:
        return None
    return [V.jsonable(V.full(r.resolution)), None if r.production is None else [str(x) for x in r.production],
            repr(r.score), r.subject, r.labels]


def stream_tuples(L, entry, limit=None):
    from ..spec import values as V
    from ..props import common as C
    from ..gen import texts as T
    o = dict(entry["o"])
    o.pop("debug", None)
    o["scorer"] = T.make_scorer(L, o["scorer"], 0)
    out = []
    for p in L.m.ctparse_gen(entry["t"], ts=C.parse_ts(entry["ts"]), timeout=0, **o):
        out.append(None if p is None else [V.jsonable(V.full(p.resolution)), [str(x) for x in p.production], repr(p.score), p.subject, p.labels])
    return out


def model_digest(L):
    import hashlib
    h = hashlib.sha256()
    sc = L.m._DEFAULT_SCORER
    if type(sc).__name__ == "NaiveBayesScorer":
        mdl = sc._model
        h.update(repr(sorted(mdl.transformer.vocabulary.items())).encode())
        h.update(repr(mdl.estimator.class_prior).encode())
        h.update(repr(mdl.estimator.log_likelihood["negative_class"]).encode())
        h.update(repr(mdl.estimator.log_likelihood["positive_class"]).encode())
        h.update(repr(mdl.transformer.ngram_range).encode())
    R = L.rule
    h.update(repr([(n, len(p), [getattr(x, "__name__", "?") for x in p]) for n, (f, p) in R.rules.items()]).encode())
    h.update(repr(sorted(R._regex_str.items())).encode())
    h.update(repr(sorted(L.pod_hours.items())).encode())
    return h.hexdigest()


def main():
    job = json.load(open(sys.argv[1]))
    env.setup_path()
    from ..attach import lib
    L = lib()
    out = {"digest": model_digest(L), "table": {}}
    for i, e in job["entries"]:
        try:
            out["table"][str(i)] = result_tuple(L, e)
        except Exception as ex:  # noqa
            out["table"][str(i)] = ["RAISES", type(ex).__name__]
    json.dump(out, sys.stdout)


if __name__ == "__main__":
    main()
