"""Fresh-interpreter recorder of the import-time registration events of the rule
base (sys.monitoring PY_START on the code objects `rule` and `fwrapper` of
ctparse/rule.py).  Prints one JSON document."""
import json
import os
import sys

from .. import env


def main():
    env.setup_path()
    events = []
    mon = sys.monitoring
    TOOL = 3
    mon.use_tool_id(TOOL, "vf-import-log")
    target = os.path.join(env.REPO, "ctparse", "rule.py")

    # the registration function is known by the name the rule module's decorators use (read from the syntax tree by the
    # caller, default 'rule'); the inner function that receives the decorated definition is any function nested in it that
    # is called with one argument, a function defined outside rule.py
    regfns = set((os.environ.get("VF_RULE_FN") or "rule").split(","))

    def on_start(code, offset):
        if code.co_filename != target:
            return mon.DISABLE
        qual = getattr(code, "co_qualname", code.co_name)
        is_reg = code.co_name in regfns and qual == code.co_name
        is_inner = any(qual.startswith(n + ".<locals>.") for n in regfns) and code.co_argcount == 1 and qual.count("<locals>") == 1
        if not (is_reg or is_inner):
            return mon.DISABLE if not any(qual.startswith(n) for n in regfns) else None
        fr = sys._getframe(1)
        if is_inner:
            a0 = fr.f_locals.get(code.co_varnames[0]) if code.co_varnames else None
            if not (hasattr(a0, "__code__") and a0.__code__.co_filename != target):
                return None
        if is_reg:
            pats = fr.f_locals.get("patterns", ())
            caller = fr.f_back
            events.append({"ev": "rule", "line": caller.f_lineno if caller else None,
                           "file": os.path.relpath(caller.f_code.co_filename, env.REPO) if caller else None,
                           "patterns": [p if isinstance(p, str) else "<%s>" % getattr(p, "__name__", "pred") for p in pats]})
        else:
            f = fr.f_locals.get(code.co_varnames[0])
            events.append({"ev": "register", "name": getattr(f, "__name__", None),
                           "line": getattr(getattr(f, "__code__", None), "co_firstlineno", None),
                           "file": os.path.relpath(f.__code__.co_filename, env.REPO) if hasattr(f, "__code__") else None})
        return None

    mon.register_callback(TOOL, mon.events.PY_START, on_start)
    mon.set_events(TOOL, mon.events.PY_START)
    import logging
    logging.disable(logging.WARNING)
    import ctparse  # noqa
    mon.set_events(TOOL, 0)
    mon.free_tool_id(TOOL)
    import ctparse.rule as R
    m = sys.modules["ctparse.ctparse"]
    sc = m._DEFAULT_SCORER
    vocab = None
    if type(sc).__name__ == "NaiveBayesScorer":
        vocab = sorted(k for k in sc._model.transformer.vocabulary if " " not in k)
    out = {
        "events": events,
        "registry": list(R.rules.keys()),
        "regex_ids": sorted(R._regex.keys()),
        "regex_str": {str(k): v for k, v in R._regex_str.items()},
        "str_regex": {k: v for k, v in R._str_regex.items()},
        "vocab_unigrams": vocab,
        "scorer": type(sc).__name__,
        "file": os.path.abspath(ctparse.__file__),
    }
    json.dump(out, sys.stdout)


if __name__ == "__main__":
    main()
