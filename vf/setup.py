"""MANIFEST.setup_cmd: offline install of the helper libraries + smoke import."""
import sys
from . import env


def main():
    ok = env.ensure_deps()
    env.setup_path()
    m = env.import_repo()
    try:
        import icontract  # noqa
    except Exception as e:
        print("setup: icontract unavailable: %r" % (e,))
        ok = False
    print("setup: repo=%s ctparse=%s icontract=%s" % (env.REPO, m.__file__, ok))
    return 0 if ok else 1


if __name__ == "__main__":
    sys.exit(main())
