#!/usr/bin/env python3
"""Regenerate MANIFEST.json from the table below (one entry per built check)."""
import json
import os

HERE = os.path.dirname(os.path.dirname(os.path.abspath(__file__)))
PY = "/venv/bin/python"

# id -> (category, level text, level note, technique, design ref)
CHECKS = {}


def check(pid, category, text, note, technique, ref):
    CHECKS[pid] = (category, text, note, technique, ref)


exec(open(os.path.join(HERE, "tools", "checks_table.py")).read())

ALL = ["C%02d" % i for i in range(1, 21)]


def main():
    props = {}
    for line in open(os.path.join(HERE, "properties.jsonl")):
        d = json.loads(line)
        props[d["id"]] = d
    checks = []
    for pid in ALL:
        if pid not in CHECKS:
            continue
        cat, text, note, tech, ref = CHECKS[pid]
        checks.append({
            "property_id": pid,
            "quick_cmd": "%s -m vf.check %s --tier quick" % (PY, pid),
            "thorough_cmd": "%s -m vf.check %s --tier thorough" % (PY, pid),
            "evidence_file": "/verif/evidence/%s.json" % pid,
            "replay_cmd_template": "%s -m vf.check %s --replay {path}" % (PY, pid),
            "engine": "vf",
            "level_claimed": {"category": cat, "text": text, "design_ref": ref},
            "level_note": note,
            "technique": tech,
        })
    na = [{"property_id": pid, "reason": NOT_APPLICABLE.get(pid, "check not built yet in this round (planned, see DESIGN.md section 3)")}
          for pid in ALL if pid not in CHECKS]
    man = {
        "version": 1,
        "setup_cmd": "%s -m vf.setup" % PY,
        "hooks": {
            "guard": "QUICKADD_VERIF",
            "enable": "no source hook is needed: monitors are attached at run time by rebinding module attributes and "
                      "registry entries of the tree under /repo (VERIF_REPO), so checks import /repo's working tree as it is; "
                      "QUICKADD_VERIF=1 is set in every worker for the interface only",
            "baseline_off_cmd": "cd /repo && /venv/bin/python -m pytest -ra -q -p no:cacheprovider --timeout=900 --continue-on-collection-errors",
            "source_commits": [],
            "add_only": True,
        },
        "engines": [{
            "name": "vf",
            "path": "/verif/vf",
            "serves_properties": [c["property_id"] for c in checks],
            "kind_free_text": "runtime monitoring: workload generators drive the real package in worker subprocesses; monitors "
                              "attached at run time (API call/return recorders, rule-registry wrappers with argument snapshots, "
                              "stream tees, virtual clock, icontract contracts, write barriers, sys.monitoring) record events; "
                              "deterministic oracles (calendar model, value model, textbook naive Bayes, derivation engine, "
                              "trace predicates) decide them",
        }],
        "checks": checks,
        "notes": "Exit codes: 0 held on everything observed, 1 violated (VIOLATION line + replay file), 2 inconclusive "
                 "(deciding monitor not reached / watchdog / too few events; never folded into held). Known findings are "
                 "listed in /verif/known_findings.json by mechanism signature.",
        "not_applicable": na,
    }
    with open(os.path.join(HERE, "MANIFEST.json"), "w") as fd:
        json.dump(man, fd, indent=1)
        fd.write("\n")
    print("MANIFEST.json: %d checks, %d not claimed" % (len(checks), len(na)))


if __name__ == "__main__":
    main()
