#!/bin/sh
# tools/benign_regress.sh [tier] : every behaviour-preserving change under benign/ against all 20 checks; prints only what is
# not HELD (R9 is expected to give INCONCLUSIVE for C09, C10, C19 and nothing else; a VIOLATED line anywhere is a false alarm)
tier=${1:-quick}
cd /verif
for d in benign/*/; do
  echo "=== $(basename $d)"
  tools/refactor_check.sh $d $tier 2>&1 | grep -v ": HELD"
done
