#!/bin/sh
# run every registered check once: tools/runall.sh <tier> <seed>
tier=${1:-quick}; seed=${2:-0}
cd /verif
for p in C01 C02 C03 C04 C05 C06 C07 C08 C09 C10 C11 C12 C13 C14 C15 C16 C17 C18 C19 C20; do
  /venv/bin/python -m vf.check $p --tier $tier --seed $seed 2>&1 | grep -v "^KNOWN-FINDING" | cut -c1-400 | tail -4
  echo "  -> $p exit=$?"
done
