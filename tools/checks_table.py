# table of built checks; exec'd by mkmanifest.py
NOT_APPLICABLE = {}

_D = "configuration D (default options, timeout=0); reference models in vf/spec; CPython, regex, dateutil as shipped"

check("C03", "exploration",
      "Held on every observed execution of a sweep of the full 28-year weekday/leap cycle (thorough: every date x every "
      "concept, ~300k calls; quick: all month/year ends and leap days + sample) with every surface form of the library's "
      "patterns; says nothing about forms outside the tables.",
      _D, "API call/return monitor + calendar reference model over a full calendar-cycle sweep", "DESIGN.md 3/C03")

check("C06", "exploration",
      "Exhaustive over the 1440 minutes x every digit notation to which a minute applies (both tiers), every named hour x "
      "suffix, every spoken quarter/half x hour x hour form, and clock + part of day; latent anchoring observed on both "
      "sides of the requested minute incl. equal-minute and day/month/year roll-over. Held on all of them.",
      _D + "; an 'H o'clock' result may leave the minute unspecified", 
      "API call/return monitor + exact hh:mm oracle and calendar model, exhaustive minute x notation enumeration", "DESIGN.md 3/C06")
