# table of built checks; exec'd by mkmanifest.py
NOT_APPLICABLE = {}

_D = "configuration D (default options, timeout=0); reference models in vf/spec; CPython, regex, dateutil as shipped"

check("C03", "exploration",
      "Held on every observed execution of a sweep of the full 28-year weekday/leap cycle (thorough: every date x every "
      "concept, ~300k calls; quick: all month/year ends and leap days + sample) with every surface form of the library's "
      "patterns; says nothing about forms outside the tables.",
      _D, "API call/return monitor + calendar reference model over a full calendar-cycle sweep", "DESIGN.md 3/C03")
