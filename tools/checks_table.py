# table of built checks; exec'd by mkmanifest.py
NOT_APPLICABLE = {}

_D = "configuration D (default options, timeout=0); reference models in vf/spec; CPython, regex, dateutil as shipped"

check("C03", "exploration",
      "Held on every observed execution of a sweep of the full 28-year weekday/leap cycle (thorough: every date x every "
      "concept, ~300k calls; quick: all month/year ends and leap days + sample) with every surface form of the library's "
      "patterns; says nothing about forms outside the tables.",
      _D, "API call/return monitor + calendar reference model over a full calendar-cycle sweep", "DESIGN.md 3/C03")

check("C06", "exploration",
      "Exhaustive over the 1440 minutes x every digit notation to which a minute applies (both tiers), every named hour x "
      "suffix, every spoken quarter/half x hour x hour form, and clock + part of day; latent anchoring observed on both "
      "sides of the requested minute incl. equal-minute and day/month/year roll-over. Held on all of them.",
      _D + "; an 'H o'clock' result may leave the minute unspecified", 
      "API call/return monitor + exact hh:mm oracle and calendar model, exhaustive minute x notation enumeration", "DESIGN.md 3/C06")

check("C04", "exploration",
      "Held on every observed execution: all weekdays and all days of month 1-31 against every date of the 28-year cycle "
      "(thorough), all 366 day+month pairs around each anniversary and all month/leap boundaries, all part-of-day forms at "
      "their own start hour +-1 minute; a failure is attributed to the clause it breaks (before reference, written field "
      "not preserved, not nearest, today-convention).",
      _D, "API call/return monitor + calendar reference model (nearest future match) over full-cycle sweeps", "DESIGN.md 3/C04")

check("C05", "exploration",
      "Exact (y,m,d,h,mi) under three reference times per text (1975..2099 and the day itself) for every calendar date "
      "1990-2029 (thorough) in 25 notations with and without a clock part; held except for the listed findings "
      "(two-digit years 90-99; beam truncation on eight named-month families), which are reported as KNOWN-FINDING.",
      _D + "; configuration E (max_stack_depth=0) only labels a failure as beam truncation",
      "API call/return monitor, three executions per text; exact-value + reference-time-invariance oracle over a full date sweep", "DESIGN.md 3/C05")

check("C08", "exploration",
      "Amount and unit exact for N=0..120 in digits x every unit word and every number word of both languages x every unit "
      "word; '<date[ time]> for N units' against the calendar model over month ends of a leap cycle with N up to several "
      "years; the contract on the three duration/interval rules is evaluated on every call the search makes (only an N-day "
      "range is handed back for N days/nights). Held except the two listed beam-truncation families.",
      _D + "; configuration E only labels beam truncation", 
      "API call/return monitor + calendar model, plus a run-time contract wrapped around the duration/interval rules", "DESIGN.md 3/C08")

check("C11", "exploration",
      "Function level exhaustive: all 288 767 assigned code points as a single separator, with idempotence, position and "
      "run collapsing; API level: every bundled-corpus expression and thousands of grammar expressions under separator "
      "substitution, bracket wrapping, dash variants and case changes give the resolution of the plain text.",
      _D + "; Unicode categories from Python's unicodedata", 
      "wrapper on the real normaliser over every code point (exhaustive) + paired executions at the API (metamorphic)", "DESIGN.md 3/C11")

check("C16", "exploration",
      "Fitted model equals a textbook Laplace-smoothed multinomial naive Bayes over 1-3-grams to 1e-9 on thousands of seeded "
      "random corpora x 12 queries; every posterior computed during real parses (shipped model and models trained in the "
      "case) is re-derived from the fitted parameters by a contract; score / score_final re-derived as log-odds + length "
      "term; save -> load gives identical floats; thorough also retrains on the bundled corpus samples.",
      "reference model vf/spec/nb_ref.py; single-class training sets are outside the domain",
      "icontract post-condition on the real predict_log_proba + independent reference model on random corpora", "DESIGN.md 3/C16")
