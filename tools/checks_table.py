# table of built checks; exec'd by mkmanifest.py
NOT_APPLICABLE = {}

_D = "configuration D (default options, timeout=0); reference models in vf/spec; CPython, regex, dateutil as shipped"

check("C03", "exploration",
      "Held on every observed execution of a sweep of the full 28-year weekday/leap cycle (thorough: every date x every "
      "concept, ~300k calls; quick: all month/year ends and leap days + sample) with every surface form of the library's "
      "patterns; says nothing about forms outside the tables.",
      _D, "API call/return monitor + calendar reference model over a full calendar-cycle sweep", "DESIGN.md 3/C03")

check("C06", "exploration",
      "Exhaustive over the 1440 minutes x every digit notation to which a minute applies (both tiers), every named hour x "
      "suffix, every spoken quarter/half x hour x hour form, and clock + part of day; latent anchoring observed on both "
      "sides of the requested minute incl. equal-minute and day/month/year roll-over. Held on all of them.",
      _D + "; an 'H o'clock' result may leave the minute unspecified", 
      "API call/return monitor + exact hh:mm oracle and calendar model, exhaustive minute x notation enumeration", "DESIGN.md 3/C06")

check("C04", "exploration",
      "Held on every observed execution: all weekdays and all days of month 1-31 against every date of the 28-year cycle "
      "(thorough), all 366 day+month pairs around each anniversary and all month/leap boundaries, all part-of-day forms at "
      "their own start hour +-1 minute; a failure is attributed to the clause it breaks (before reference, written field "
      "not preserved, not nearest, today-convention).",
      _D, "API call/return monitor + calendar reference model (nearest future match) over full-cycle sweeps", "DESIGN.md 3/C04")

check("C05", "exploration",
      "Exact (y,m,d,h,mi) under three reference times per text (1975..2099 and the day itself) for every calendar date "
      "1990-2029 (thorough) in 25 notations with and without a clock part; held except for the listed findings "
      "(two-digit years 90-99; beam truncation on eight named-month families), which are reported as KNOWN-FINDING.",
      _D + "; configuration E (max_stack_depth=0) only labels a failure as beam truncation",
      "API call/return monitor, three executions per text; exact-value + reference-time-invariance oracle over a full date sweep", "DESIGN.md 3/C05")

check("C08", "exploration",
      "Amount and unit exact for N=0..120 in digits x every unit word and every number word of both languages x every unit "
      "word; '<date[ time]> for N units' against the calendar model over month ends of a leap cycle with N up to several "
      "years; the contract on the three duration/interval rules is evaluated on every call the search makes (only an N-day "
      "range is handed back for N days/nights). Held except the two listed beam-truncation families.",
      _D + "; configuration E only labels beam truncation", 
      "API call/return monitor + calendar model, plus a run-time contract wrapped around the duration/interval rules", "DESIGN.md 3/C08")

check("C11", "exploration",
      "Function level exhaustive: all 288 767 assigned code points as a single separator, with idempotence, position and "
      "run collapsing; API level: every bundled-corpus expression and thousands of grammar expressions under separator "
      "substitution, bracket wrapping, dash variants and case changes give the resolution of the plain text.",
      _D + "; Unicode categories from Python's unicodedata", 
      "wrapper on the real normaliser over every code point (exhaustive) + paired executions at the API (metamorphic)", "DESIGN.md 3/C11")

check("C16", "exploration",
      "Fitted model equals a textbook Laplace-smoothed multinomial naive Bayes over 1-3-grams to 1e-9 on thousands of seeded "
      "random corpora x 12 queries; every posterior computed during real parses (shipped model and models trained in the "
      "case) is re-derived from the fitted parameters by a contract; score / score_final re-derived as log-odds + length "
      "term; save -> load gives identical floats; thorough also retrains on the bundled corpus samples.",
      "reference model vf/spec/nb_ref.py; single-class training sets are outside the domain",
      "icontract post-condition on the real predict_log_proba + independent reference model on random corpora", "DESIGN.md 3/C16")

check("C01", "fault_enumeration",
      "No exception escaped ctparse(), the exhausted ctparse_gen stream, str() or repr(), and result shapes were right, on "
      "every observed call over four hostile generators (impossible dates, stacked modifiers, empty/label-only text, token "
      "soup, arbitrary Unicode, mutated corpus texts) x reference times 1970-2100 x the option cross product; the one "
      "configuration fault of the property (model file absent) is enumerated in a fresh interpreter (and a scratch package "
      "without models/ in the thorough tier) with the documented fallback asserted.",
      "termination judged on a step budget, never wall-clock; CPython, regex, dateutil as shipped",
      "API call/return + rule-exception recorder over hostile generators; fresh-process fault injection for the absent model", "DESIGN.md 3/C01")

check("C02", "exploration",
      "Every candidate of every observed stream (latent on and off) was well formed: field ranges, part of day known to the "
      "library's table, day exists in month/year, dated interval start <= end; start/end/dt accessors called without "
      "raising; span inside the normalised text with start < end.",
      "interval compared as [start of first end, end of last end]; step budget as C01",
      "tee on all stream candidates + well-formedness oracle over the C01 generators and grammar compositions", "DESIGN.md 3/C02")

check("C14", "exploration",
      "In one execution per case (tees on the stream ctparse() consumes and on the pre-latent search) the returned object "
      "was a streamed candidate of maximal score with identical fields, empty iff the stream was empty, all scores finite "
      "floats, and pre-latent no value repeated without a strictly higher score.",
      "value identity by the independent value model; timeout=0; step budget as C01",
      "stream tee inside a single execution + membership/max/finite/monotone-repeat trace predicates", "DESIGN.md 3/C14")

check("C18", "exploration",
      "icontract post-conditions on the real Artifact.__eq__/__hash__ (value model as oracle) evaluated on all 128 field "
      "masks x sampled full-range values x every single-field perturbation, all pairs of an interval-end pool incl. open "
      "ends, durations 0..120 x units, cross-kind/foreign operands and the comparisons made by the search's own dedup "
      "tables during real parses; text form injective (collision table) and round-trips, incl. every gold string.",
      "value model vf/spec/values.py reads plain attributes only",
      "icontract contracts on __eq__/__hash__ + collision tables + round-trip oracle", "DESIGN.md 3/C18")

check("C19", "exploration",
      "Import-time event log (sys.monitoring in a fresh interpreter: 69 rule() calls, 69 registrations) agrees with the "
      "registry, the syntax tree of rules.py and the shipped vocabulary; no adjacent regex predicates, pattern text <-> id "
      "bijective, no pattern matches '' or yields a zero-length match on probes and on every match event of the workload; "
      "every part-of-day modifier chain to depth 3/4 through the real rule stays inside the table; every registered rule "
      "fired at least once (per-rule counters) on the bundled corpus + grammar workload.",
      "a rule silent on the bundled corpus is reported as unable to fire",
      "sys.monitoring import-time event log + per-rule firing counters + match-event monitor vs registry/AST/model", "DESIGN.md 3/C19")

check("C13", "fault_enumeration",
      "Every expiry point (the deadline placed between any two consecutive reads of a virtual clock) of small inputs and "
      "stratified expiry points of inputs with exponentially many candidate sequences: never raises, yields are a prefix of "
      "the unlimited run's, ctparse() returns the best of the prefix or an empty result, no work event after the check that "
      "raised, at most one pre-filter analysis and |rules| x |matches| applications/scorings between two consecutive "
      "checks, timeout=0 never expires.",
      "the deadline closure is the library's own; only the clock it reads is virtual; shipped scorer",
      "virtual clock + ordered event trace (checks, analyses, applications, scorings, yields) with trace predicates; exhaustive expiry-point enumeration", "DESIGN.md 3/C13")

check("C07", "exploration",
      "All 24x24 hour pairs (with minute variants) x 11 joiners x 4 hour forms x 6 contexts (thorough: the full product) "
      "against the range model (from = A, to = B, +12 h / next-day wrap, never inverted, never > 24 h); ordered and reversed "
      "date pairs in six notations; all before/after/not-before/not-after spellings with the bound compared to what X alone "
      "denotes. Held except the four listed beam-truncation families.",
      _D + "; configuration E only labels beam truncation", 
      "API call/return monitor + range reference model over the full hour-pair x joiner x context product", "DESIGN.md 3/C07")

check("C20", "exploration",
      "Three executions per case (day alone, clock alone with latent off, both together): the combined result is the day of "
      "the first at the hour/minute of the second, for every day form (29) x clock notation (29) x both orders x {blank, at, "
      "um}, each with 3 (quick) / 35 (thorough) value and reference-time samples. Held except the eight listed "
      "beam-truncation families.",
      _D + "; configuration E only labels beam truncation", 
      "three monitored executions per case + homomorphism oracle over the full form x notation x order x connector product", "DESIGN.md 3/C20")

check("C12", "exploration",
      "Every result of seeded random call histories (incl. abandoned/closed streams and failing calls), of ALL interleavings "
      "of two streams' first steps (hundreds of schedules per pair) and of 8-thread runs with a 1 microsecond switch "
      "interval with/without line-level yield injection equals a reference table computed in fresh interpreters; the tables "
      "under PYTHONHASHSEED 0/1/2/random agree; write barriers on the shared model never fired and model/rule-base digests "
      "never changed. Overlapping call pairs and injected yields are counted; zero overlap would be inconclusive.",
      "timeout=0; RandomScorer excluded; schedules observed are those the interpreter produced under the injected yields",
      "history recorder + write barriers + digests vs fresh-process reference table; exhaustive two-stream interleaving; thread stress with sys.monitoring yield injection", "DESIGN.md 3/C12")

check("C15", "other",
      "Reference model per execution: an independent exhaustive derivation engine (all matches -> all maximal gap-free "
      "sequences of maximal coverage -> closure under all rules at all windows) is compared with the real search on hundreds "
      "(quick) / thousands (thorough) of short texts x 8 scorer/depth settings, with argument snapshots around every rule "
      "application (millions) and re-snapshots of every yielded candidate: sound, productions replay, complete without "
      "depth limit under constant/shipped/random scorers, pure.",
      "the reference shares the regex engine and rule bodies with the library; graphs over the state cap are skipped and counted",
      "argument-snapshot wrappers on every rule + candidate re-snapshots + independent derivation engine as executable reference", "DESIGN.md 3/C15")

check("C17", "exploration",
      "With a tee on the candidate stream the dataset builders consume, the emitted samples equal - per candidate, in order - "
      "every non-empty prefix of its production, labelled by value equality with the gold (independent value model), for "
      "every entry of the bundled dataset and corpus (thorough) and generated Time/Interval/Duration golds; duplicating a "
      "positive example 1..20 times never lowered the retrained model's log-odds for its trace on thousands of random "
      "training sets.",
      "builder arguments timeout=0, max_stack_depth=10; monotonicity is a theorem for a correct model",
      "stream tee bound in ctparse.corpus + conservation/label oracle; metamorphic retraining oracle", "DESIGN.md 3/C17")

check("C09", "exploration",
      "Paired executions (expression alone / embedded among 0-3 words before and after) for thousands of grammar and "
      "bundled-corpus expressions x reference times: same resolution value, span equal to the alone span shifted by the "
      "prefix, spanned characters without leading/trailing blank (also after latent anchoring); fillers count only when the "
      "match monitor saw no pattern match touch them, otherwise the case is excluded and counted.",
      _D, "paired executions + RegexMatch event monitor deciding inertness; value/span metamorphic oracle", "DESIGN.md 3/C09")

check("C10", "exploration",
      "Four executions per text (full, without hashtags, without the expression, without both) over thousands of texts "
      "assembled from words, valid hashtags and a time expression in random order with the library's separators: labels == "
      "hashtags put in (all runs), no hashtag in a subject, hashtags change neither resolution nor subject, subject is an "
      "ordered sub-sequence of the input words that keeps every word the match monitor observed inert and drops every word "
      "wholly inside a match in the provenance of the result (provenance from rule-application events), and the no-match "
      "path agrees when the expression is fully consumed.",
      _D + "; words neither observed inert nor in the provenance of the result are unconstrained",
      "API recorder + provenance from rule-application events + match-event inertness; partition and metamorphic oracles", "DESIGN.md 3/C10")
