#!/bin/sh
# tools/refactor_check.sh <dir with patch.diff> [tier] : a behaviour-preserving change must not raise an alarm in ANY check
d=$(cd "$1" && pwd); tier=${2:-quick}
wt=/tmp/wt-rc-$$; out=/tmp/vfout-rc-$$
git -C /repo worktree add -q --detach $wt HEAD || exit 9
git -C $wt apply "$d/patch.diff" || { echo "PATCH DOES NOT APPLY"; git -C /repo worktree remove --force $wt; exit 8; }
mkdir -p $out; cd /verif
for p in C01 C02 C03 C04 C05 C06 C07 C08 C09 C10 C11 C12 C13 C14 C15 C16 C17 C18 C19 C20; do
  VERIF_REPO=$wt VERIF_OUT=$out /venv/bin/python -m vf.check $p --tier $tier 2>&1 | grep -v "^KNOWN-FINDING" | grep -E "VIOLATED|HELD|INCONCLUSIVE|unlisted" | cut -c1-260
done
rm -rf $out; git -C /repo worktree remove --force $wt
