#!/bin/sh
# tools/mutant_check3.sh <dir with patch.diff> <tier> <check ids...>
# builds its OWN scratch worktree of /repo HEAD with the patch applied (never trusts an agent's worktree), runs the checks
# against it (VERIF_REPO, outputs to a scratch VERIF_OUT), removes both
d=$(cd "$1" && pwd); tier=$2; shift 2
wt=/tmp/wt-mc-$$; out=/tmp/vfout-$$
git -C /repo worktree add -q --detach $wt HEAD || exit 9
git -C $wt apply "$d/patch.diff" || { echo "PATCH DOES NOT APPLY"; git -C /repo worktree remove --force $wt; exit 8; }
mkdir -p $out; cd /verif
for p in "$@"; do
  VERIF_REPO=$wt VERIF_OUT=$out /venv/bin/python -m vf.check $p --tier $tier 2>&1 | grep -v "^KNOWN-FINDING" | grep -E "VIOLATED|HELD|INCONCLUSIVE|unlisted" | cut -c1-330
done
rm -rf $out; git -C /repo worktree remove --force $wt
