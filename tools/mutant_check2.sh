#!/bin/sh
# tools/mutant_check2.sh <worktree with the change applied> <tier> <check ids...>
# runs the checks against a scratch tree (VERIF_REPO) without touching /repo; outputs go to /tmp/vfout-<pid>
wt=$(cd "$1" && pwd); tier=$2; shift 2
out=/tmp/vfout-$$; mkdir -p $out
cd /verif
for p in "$@"; do
  VERIF_REPO=$wt VERIF_OUT=$out /venv/bin/python -m vf.check $p --tier $tier 2>&1 | grep -v "^KNOWN-FINDING" | grep -E "VIOLATED|HELD|INCONCLUSIVE|unlisted" | cut -c1-330
done
rm -rf $out
