#!/bin/sh
# tools/mutant_check.sh <dir with patch.diff> <tier> <check ids...> : apply the change to /repo, run the checks, undo it
d=$(cd "$1" && pwd); tier=$2; shift 2
git -C /repo diff --quiet || { echo "/repo has uncommitted changes"; exit 9; }
git -C /repo apply "$d/patch.diff" || exit 8
cd /verif
for p in "$@"; do
  /venv/bin/python -m vf.check $p --tier $tier 2>&1 | grep -v "^KNOWN-FINDING" | cut -c1-330 | tail -4
done
git -C /repo checkout -- .
git -C /repo status --short | head -3
