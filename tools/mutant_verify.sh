#!/bin/sh
# tools/mutant_verify.sh <dir with patch.diff demo.py> : confirm in a scratch worktree that the change
# (1) applies, (2) keeps the suite at "1 failed, 70 passed", (3) makes demo.py fail, (4) demo.py passes without it.
d=$(cd "$1" && pwd)
wt=/tmp/wt/verify-$$
git -C /repo worktree add -q --detach $wt HEAD || exit 9
cd $wt
mkdir -p MUTANT; cp "$d"/demo* MUTANT/ 2>/dev/null
demo=MUTANT/$(basename $(ls "$d"/demo* | head -1))
echo "== demo on original:"; /venv/bin/python -W ignore $demo >/dev/null 2>&1; echo "   exit=$?"
git apply "$d/patch.diff" || { echo "PATCH DOES NOT APPLY"; git -C /repo worktree remove --force $wt; exit 8; }
echo "== suite with change:"; /venv/bin/python -m pytest -q -p no:cacheprovider 2>&1 | tail -1
echo "== demo with change:"; /venv/bin/python -W ignore $demo 2>&1 | tail -2
/venv/bin/python -W ignore $demo >/dev/null 2>&1; echo "   exit=$?"
cd /; git -C /repo worktree remove --force $wt
