#!/bin/sh
# tools/seeded_regress.sh [tier] : apply every seeded change to a scratch worktree of /repo HEAD (outside /repo and /verif),
# run the check of its property against that tree (VERIF_REPO) and report whether it is caught; removes the worktree.
tier=${1:-quick}
cd /verif
for d in seeded/*/; do
  name=$(basename $d)
  prop=$(python3 -c "import json;print(json.load(open('$d/meta.json'))['property'])")
  wt=/tmp/wt-regress-$$
  git -C /repo worktree add -q --detach $wt HEAD || exit 9
  if git -C $wt apply /verif/$d/patch.diff 2>/dev/null; then
    out=/tmp/vfout-regress-$$; mkdir -p $out
    res=$(VERIF_REPO=$wt VERIF_OUT=$out /venv/bin/python -m vf.check $prop --tier $tier 2>&1 | grep -E "^$prop .*(VIOLATED|HELD|INCONCLUSIVE)" | sed -E 's/.*: (VIOLATED|HELD|INCONCLUSIVE).*/\1/')
    rm -rf $out
    echo "$name $prop $res"
  else
    echo "$name $prop PATCH-DOES-NOT-APPLY"
  fi
  git -C /repo worktree remove --force $wt
done
