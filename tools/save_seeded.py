#!/usr/bin/env python3
"""tools/save_seeded.py <name> <property> <source dir> <caught-by text> : keep a confirmed seeded change under seeded/<name>/"""
import json, os, shutil, sys
name, prop, src, caught = sys.argv[1:5]
dst = os.path.join("/verif/seeded", name)
os.makedirs(dst, exist_ok=True)
shutil.copy(os.path.join(src, "patch.diff"), dst)
for f in os.listdir(src):
    if f.startswith("demo"):
        shutil.copy(os.path.join(src, f), dst)
meta_txt = open(os.path.join(src, "meta.txt")).read() if os.path.exists(os.path.join(src, "meta.txt")) else ""
meta = {
    "property": prop,
    "origin": "written by an independent sub-agent that saw only the property text and a scratch worktree of /repo (HEAD with the fix: commits)",
    "description_and_what_it_needs_to_manifest": meta_txt.strip(),
    "confirmed": "tools/mutant_verify.sh: in a fresh scratch worktree the patch applies, the suite stays at '1 failed, 70 passed' (test_ctparse only), "
                 "demo.py exits 0 without the change and 1 with it",
    "checks_run": "tools/mutant_check3.sh <dir> quick %s (own scratch worktree of /repo HEAD with the patch applied, VERIF_REPO pointing at it, removed afterwards)" % prop,
    "caught_by": caught,
}
json.dump(meta, open(os.path.join(dst, "meta.json"), "w"), indent=1, ensure_ascii=False)
print("saved", dst)
