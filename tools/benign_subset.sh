#!/bin/sh
# tools/benign_subset.sh "<check ids>" [tier] : every behaviour-preserving change under benign/ against the given checks only
# (used after a check was changed; the full matrix is tools/benign_regress.sh).  Prints what is not HELD.
checks=$1; tier=${2:-quick}
cd /verif
for d in benign/*/; do
  echo "=== $(basename $d)"
  tools/mutant_check3.sh $d $tier $checks 2>&1 | grep -v ": HELD" | cut -c1-300
done
