#!/bin/sh
# run the repository's own suite with the guard off; expect "1 failed, 70 passed" (test_ctparse always fails at the pinned commit)
cd /repo && env -u QUICKADD_VERIF /venv/bin/python -m pytest -q -p no:cacheprovider --timeout=900 --continue-on-collection-errors 2>&1 | tail -3
