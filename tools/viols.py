#!/usr/bin/env python3
"""triage aid: group the violations of the last run by signature"""
import json, sys, collections
pid, tier = sys.argv[1], (sys.argv[2] if len(sys.argv) > 2 else "quick")
pat = sys.argv[3] if len(sys.argv) > 3 else ""
n = int(sys.argv[4]) if len(sys.argv) > 4 else 2
rows = [json.loads(l) for l in open(__import__("os").environ.get("VERIF_OUT", "/verif") + "/out/last/%s-%s.viol.jsonl" % (pid, tier))]
c = collections.Counter(r["sig"] for r in rows)
for sig, k in c.most_common():
    if pat and pat not in sig:
        continue
    print("%5d %s" % (k, sig))
    for r in [r for r in rows if r["sig"] == sig][:n]:
        print("        ", (r["msg"] or "")[:260])
